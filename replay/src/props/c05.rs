//! C05 — shifts and bit queries agree with the binary expansion for every shift amount.
//!
//! Oracle: `x << s` / `x >> s` / bit arithmetic on BigUint (BigInt + floor division for the arithmetic
//! right shift), truncated to the width. Overflow is reported exactly when `s >= BITS` (for the
//! double-width `(lo, hi)` forms: `s >= 2*BITS`); the wrapping forms then return zero (Int right
//! shifts: the sign fill), the panicking forms (`shl`, `shr`, operators) panic as documented.
//! Every case runs **all** shift amounts `0..=2*BITS+1` (+ large ones up to `u32::MAX`) over a few
//! values; the bit-test / bit-set cases run every index `0..=BITS+1`.
//!
//! Note on `Limb`: its `WrappingShl`/`WrappingShr` are the `num_traits` traits implemented through
//! `u64::wrapping_shl`, documented as "mask the shift amount"; that documented behaviour is the
//! oracle there (the Uint/Int/BoxedUint wrapping forms return zero as the property says).

use super::prelude::*;
use crypto_bigint::{BitOps, ShlVartime, ShrVartime, Wrapping, WrappingShl, WrappingShr};

// ---------------------------------------------------------------- corpora

/// All shift amounts `0..=2*bits+1` plus multiples of the width and huge values.
fn shift_amounts(bits: u32) -> Vec<u32> {
    let mut ks: Vec<u32> = (0..=2 * bits + 1).collect();
    ks.extend([
        3 * bits,
        4 * bits,
        4 * bits + 1,
        1 << 16,
        1 << 20,
        (1 << 20) + 1,
        i32::MAX as u32,
        1 << 31,
        (1 << 31) + 1,
        (1 << 31) + bits,
        u32::MAX - bits,
        u32::MAX - 1,
        u32::MAX,
    ]);
    ks
}

/// Limb boundaries used for runs of ones (all of them for narrow widths, a few for wide ones).
fn boundaries(l: usize) -> Vec<usize> {
    if l <= 6 { (1..l).collect() } else { vec![1, 2, l / 2, l - 1] }
}

/// Values for the "every shift amount" loops: 0, 1, MAX, top bit, alternating patterns, runs of ones
/// ending / starting at limb boundaries, bits around limb boundaries, then `n` edge values and a
/// few random ones.
fn shift_values(c: &mut Ctx, l: usize, n_shifts: usize) -> Vec<BigUint> {
    let bits = 64 * l as u32;
    let max = mask(bits);
    let mut v = vec![
        BigUint::zero(),
        BigUint::one(),
        max.clone(),
        pow2(bits - 1),
        pow2(bits - 1) - 1u32,
        &max / 3u32,         // 0101..
        (&max / 3u32) << 1,  // 1010..
        pow2(63),
        pow2(63) | pow2(bits - 1) | BigUint::one(),
    ];
    for i in boundaries(l) {
        let k = 64 * i as u32;
        v.push(pow2(k) - 1u32); // ones below a limb boundary
        v.push(&max ^ (pow2(k) - 1u32)); // ones above a limb boundary
        v.push(pow2(k)); // single bit just above
        v.push(pow2(k - 1) | pow2(k)); // pair straddling the boundary
    }
    let n = (c.cap / n_shifts).clamp(4, 32);
    v.extend(c.edges(l, n));
    for _ in 0..(c.iters / 200).clamp(2, 10) {
        v.push(c.rnd(l));
    }
    v
}

/// Values for the bit queries: the unary corpus plus single bits at every position, runs of ones
/// `2^k - 1` for every k, `MAX << k` for every k, runs ending at limb boundaries.
fn bit_values(c: &mut Ctx, l: usize) -> Vec<BigUint> {
    let bits = 64 * l as u32;
    let max = mask(bits);
    let mut v = c.inputs1(l);
    for k in 0..bits {
        v.push(pow2(k));
        v.push(mask(k));
        v.push((&max << k) & &max);
        v.push(&max ^ pow2(k));
    }
    for i in 1..l {
        for j in 0..i {
            // a run of ones from limb j up to limb i
            v.push(mask(64 * i as u32) ^ mask(64 * j as u32));
        }
    }
    v
}

/// Value when the call is inside the documented domain, documented panic otherwise. Unwinding is
/// slow, so outside the domain the call is only made when `$pan` says so (see [`panic_wanted`]).
macro_rules! in_range_or_panic {
    ($c:ident, $ok:expr, $pan:expr, $call:expr, $exp:expr; $($n:ident),*) => {
        if $ok {
            check!($c, $call, $exp; $($n),*);
        } else if $pan {
            must_panic!($c, $call; $($n),*);
        }
    };
}

/// The documented panics do not depend on the value: every out-of-range shift amount is tried on
/// the first three values (0, 1, MAX), the boundary and huge amounts on every value.
fn panic_wanted(value_index: usize, s: u32, bits: u32) -> bool {
    value_index < 3 || s <= bits + 1 || s == 2 * bits || s > 2 * bits + 1
}

// ---------------------------------------------------------------- Uint shifts

fn uint_shl<const L: usize>(c: &mut Ctx) {
    let bits = 64 * L as u32;
    let ks = shift_amounts(bits);
    let m = mask(bits);
    for (vi, x) in shift_values(c, L, ks.len()).into_iter().enumerate() {
        let a = bu::<L>(&x);
        for &s in &ks {
            if c.done() {
                return;
            }
            let ok = s < bits;
            let pan = panic_wanted(vi, s, bits);
            let e: Option<BigUint> = if ok { Some((&x << s as usize) & &m) } else { None };
            let w = e.clone().unwrap_or_default();
            let ou = |o: Option<Uint<L>>| o.map(|v| ub(&v));
            check!(c, call(|| copt(a.overflowing_shl(s))).map(ou), e.clone(); x, s);
            check!(c, call(|| copt(a.overflowing_shl_vartime(s))).map(ou), e.clone(); x, s);
            check!(c, call(|| opt(ShlVartime::overflowing_shl_vartime(&a, s))).map(ou), e.clone(); x, s);
            check!(c, call(|| a.wrapping_shl(s)).map(|v| ub(&v)), w.clone(); x, s);
            check!(c, call(|| a.wrapping_shl_vartime(s)).map(|v| ub(&v)), w.clone(); x, s);
            check!(c, call(|| WrappingShl::wrapping_shl(&a, s)).map(|v| ub(&v)), w.clone(); x, s);
            check!(c, call(|| ShlVartime::wrapping_shl_vartime(&a, s)).map(|v| ub(&v)), w.clone(); x, s);
            check!(c, call(|| Wrapping(a) << s).map(|v| ub(&v.0)), w.clone(); x, s);
            check!(c, call(|| &Wrapping(a) << s).map(|v| ub(&v.0)), w.clone(); x, s);
            // documented: panics if shift >= BITS
            in_range_or_panic!(c, ok, pan, call(|| a.shl(s)).map(|v| ub(&v)), w.clone(); x, s);
            in_range_or_panic!(c, ok, pan, call(|| a.shl_vartime(s)).map(|v| ub(&v)), w.clone(); x, s);
            in_range_or_panic!(c, ok, pan, call(|| a << s).map(|v| ub(&v)), w.clone(); x, s);
            in_range_or_panic!(c, ok, pan, call(|| &a << s).map(|v| ub(&v)), w.clone(); x, s);
            in_range_or_panic!(c, ok, pan, call(|| { let mut t = a; t <<= s; t }).map(|v| ub(&v)), w.clone(); x, s);
            let su = s as usize;
            in_range_or_panic!(c, ok, pan, call(|| a << su).map(|v| ub(&v)), w.clone(); x, s);
            in_range_or_panic!(c, ok, pan, call(|| &a << su).map(|v| ub(&v)), w.clone(); x, s);
            in_range_or_panic!(c, ok, pan, call(|| { let mut t = a; t <<= su; t }).map(|v| ub(&v)), w.clone(); x, s);
            if s <= i32::MAX as u32 {
                let si = s as i32;
                in_range_or_panic!(c, ok, pan, call(|| a << si).map(|v| ub(&v)), w.clone(); x, s);
                in_range_or_panic!(c, ok, pan, call(|| &a << si).map(|v| ub(&v)), w.clone(); x, s);
                in_range_or_panic!(c, ok, pan, call(|| { let mut t = a; t <<= si; t }).map(|v| ub(&v)), w.clone(); x, s);
            }
        }
        // a usize shift that does not fit u32 (and would be 0 / small after truncation)
        for big in [1usize << 32, (1usize << 32) + 1, usize::MAX] {
            let s = big;
            must_panic!(c, call(|| a << s).map(|v| ub(&v)); x, s);
        }
    }
}

fn uint_shr<const L: usize>(c: &mut Ctx) {
    let bits = 64 * L as u32;
    let ks = shift_amounts(bits);
    for (vi, x) in shift_values(c, L, ks.len()).into_iter().enumerate() {
        let a = bu::<L>(&x);
        for &s in &ks {
            if c.done() {
                return;
            }
            let ok = s < bits;
            let pan = panic_wanted(vi, s, bits);
            let e: Option<BigUint> = if ok { Some(&x >> s as usize) } else { None };
            let w = e.clone().unwrap_or_default();
            let ou = |o: Option<Uint<L>>| o.map(|v| ub(&v));
            check!(c, call(|| copt(a.overflowing_shr(s))).map(ou), e.clone(); x, s);
            check!(c, call(|| copt(a.overflowing_shr_vartime(s))).map(ou), e.clone(); x, s);
            check!(c, call(|| opt(ShrVartime::overflowing_shr_vartime(&a, s))).map(ou), e.clone(); x, s);
            check!(c, call(|| a.wrapping_shr(s)).map(|v| ub(&v)), w.clone(); x, s);
            check!(c, call(|| a.wrapping_shr_vartime(s)).map(|v| ub(&v)), w.clone(); x, s);
            check!(c, call(|| WrappingShr::wrapping_shr(&a, s)).map(|v| ub(&v)), w.clone(); x, s);
            check!(c, call(|| ShrVartime::wrapping_shr_vartime(&a, s)).map(|v| ub(&v)), w.clone(); x, s);
            check!(c, call(|| Wrapping(a) >> s).map(|v| ub(&v.0)), w.clone(); x, s);
            check!(c, call(|| &Wrapping(a) >> s).map(|v| ub(&v.0)), w.clone(); x, s);
            // documented: panics if shift >= BITS
            in_range_or_panic!(c, ok, pan, call(|| a.shr(s)).map(|v| ub(&v)), w.clone(); x, s);
            in_range_or_panic!(c, ok, pan, call(|| a.shr_vartime(s)).map(|v| ub(&v)), w.clone(); x, s);
            in_range_or_panic!(c, ok, pan, call(|| a >> s).map(|v| ub(&v)), w.clone(); x, s);
            in_range_or_panic!(c, ok, pan, call(|| &a >> s).map(|v| ub(&v)), w.clone(); x, s);
            in_range_or_panic!(c, ok, pan, call(|| { let mut t = a; t >>= s; t }).map(|v| ub(&v)), w.clone(); x, s);
            let su = s as usize;
            in_range_or_panic!(c, ok, pan, call(|| a >> su).map(|v| ub(&v)), w.clone(); x, s);
            in_range_or_panic!(c, ok, pan, call(|| &a >> su).map(|v| ub(&v)), w.clone(); x, s);
            in_range_or_panic!(c, ok, pan, call(|| { let mut t = a; t >>= su; t }).map(|v| ub(&v)), w.clone(); x, s);
            if s <= i32::MAX as u32 {
                let si = s as i32;
                in_range_or_panic!(c, ok, pan, call(|| a >> si).map(|v| ub(&v)), w.clone(); x, s);
                in_range_or_panic!(c, ok, pan, call(|| &a >> si).map(|v| ub(&v)), w.clone(); x, s);
                in_range_or_panic!(c, ok, pan, call(|| { let mut t = a; t >>= si; t }).map(|v| ub(&v)), w.clone(); x, s);
            }
        }
        for big in [1usize << 32, (1usize << 32) + 1, usize::MAX] {
            let s = big;
            must_panic!(c, call(|| a >> s).map(|v| ub(&v)); x, s);
        }
    }
}

/// Double-width shifts on `(lo, hi)`: the value is `lo + hi * 2^BITS`, the width `2*BITS`.
fn uint_wide<const L: usize>(c: &mut Ctx) {
    let bits = 64 * L as u32;
    let ks = shift_amounts(bits);
    let (m, m2) = (mask(bits), mask(2 * bits));
    let vals = shift_values(c, L, 2 * ks.len());
    let mut pairs: Vec<(BigUint, BigUint)> = vec![
        (m.clone(), BigUint::zero()),
        (BigUint::zero(), m.clone()),
        (m.clone(), m.clone()),
        (BigUint::one(), BigUint::zero()),
        (BigUint::zero(), BigUint::one()),
        (BigUint::zero(), pow2(bits - 1)),
        (pow2(bits - 1), BigUint::zero()),
        (BigUint::one(), BigUint::one()),
        (BigUint::zero(), BigUint::zero()),
    ];
    for i in 0..vals.len() {
        pairs.push((vals[i].clone(), vals[(7 * i + 3) % vals.len()].clone()));
    }
    for (lo, hi) in pairs {
        let n = &lo | (&hi << bits as usize);
        let (a, b) = (bu::<L>(&lo), bu::<L>(&hi));
        for &s in &ks {
            if c.done() {
                return;
            }
            let ok = s < 2 * bits;
            let split = |v: BigUint| (&v & &m, &v >> bits as usize);
            let el = if ok { Some(split((&n << s as usize) & &m2)) } else { None };
            let er = if ok { Some(split(&n >> s as usize)) } else { None };
            let ou = |o: Option<(Uint<L>, Uint<L>)>| o.map(|(p, q)| (ub(&p), ub(&q)));
            check!(c, call(|| copt(Uint::<L>::overflowing_shl_vartime_wide((a, b), s))).map(ou), el; lo, hi, s);
            check!(c, call(|| copt(Uint::<L>::overflowing_shr_vartime_wide((a, b), s))).map(ou), er; lo, hi, s);
        }
    }
}

// ---------------------------------------------------------------- Int shifts

fn int_values(c: &mut Ctx, l: usize, n_shifts: usize) -> Vec<BigInt> {
    let bits = 64 * l as u32;
    let mut v: Vec<BigInt> = shift_values(c, l, n_shifts).iter().map(|x| wrap_signed(&BigInt::from(x.clone()), bits)).collect();
    v.extend([smin(bits), smax(bits), BigInt::from(-1), BigInt::from(-2), smin(bits) + 1, smin(bits - 1), smax(bits - 1) + 1]);
    v
}

fn int_shl<const L: usize>(c: &mut Ctx) {
    let bits = 64 * L as u32;
    let ks = shift_amounts(bits);
    for (vi, x) in int_values(c, L, ks.len()).into_iter().enumerate() {
        let a = bi::<L>(&x);
        for &s in &ks {
            if c.done() {
                return;
            }
            let ok = s < bits;
            let pan = panic_wanted(vi, s, bits);
            let e: Option<BigInt> = if ok { Some(wrap_signed(&(&x << s as usize), bits)) } else { None };
            let w = e.clone().unwrap_or_default();
            let oi = |o: Option<Int<L>>| o.map(|v| ib(&v));
            check!(c, call(|| copt(a.overflowing_shl(s))).map(oi), e.clone(); x, s);
            check!(c, call(|| copt(a.overflowing_shl_vartime(s))).map(oi), e.clone(); x, s);
            check!(c, call(|| opt(ShlVartime::overflowing_shl_vartime(&a, s))).map(oi), e.clone(); x, s);
            check!(c, call(|| a.wrapping_shl(s)).map(|v| ib(&v)), w.clone(); x, s);
            check!(c, call(|| a.wrapping_shl_vartime(s)).map(|v| ib(&v)), w.clone(); x, s);
            check!(c, call(|| WrappingShl::wrapping_shl(&a, s)).map(|v| ib(&v)), w.clone(); x, s);
            check!(c, call(|| ShlVartime::wrapping_shl_vartime(&a, s)).map(|v| ib(&v)), w.clone(); x, s);
            in_range_or_panic!(c, ok, pan, call(|| a.shl(s)).map(|v| ib(&v)), w.clone(); x, s);
            in_range_or_panic!(c, ok, pan, call(|| a.shl_vartime(s)).map(|v| ib(&v)), w.clone(); x, s);
            in_range_or_panic!(c, ok, pan, call(|| a << s).map(|v| ib(&v)), w.clone(); x, s);
            in_range_or_panic!(c, ok, pan, call(|| &a << s).map(|v| ib(&v)), w.clone(); x, s);
            in_range_or_panic!(c, ok, pan, call(|| { let mut t = a; t <<= s; t }).map(|v| ib(&v)), w.clone(); x, s);
            let su = s as usize;
            in_range_or_panic!(c, ok, pan, call(|| a << su).map(|v| ib(&v)), w.clone(); x, s);
            in_range_or_panic!(c, ok, pan, call(|| { let mut t = a; t <<= su; t }).map(|v| ib(&v)), w.clone(); x, s);
            if s <= i32::MAX as u32 {
                let si = s as i32;
                in_range_or_panic!(c, ok, pan, call(|| a << si).map(|v| ib(&v)), w.clone(); x, s);
                in_range_or_panic!(c, ok, pan, call(|| { let mut t = a; t <<= si; t }).map(|v| ib(&v)), w.clone(); x, s);
            }
        }
    }
}

/// Arithmetic right shift: floor(x / 2^s); sign fill (0 / -1) from the wrapping forms when s >= BITS.
fn int_shr<const L: usize>(c: &mut Ctx) {
    let bits = 64 * L as u32;
    let ks = shift_amounts(bits);
    for (vi, x) in int_values(c, L, ks.len()).into_iter().enumerate() {
        let a = bi::<L>(&x);
        let fill = if x.sign() == num_bigint::Sign::Minus { BigInt::from(-1) } else { BigInt::zero() };
        for &s in &ks {
            if c.done() {
                return;
            }
            let ok = s < bits;
            let pan = panic_wanted(vi, s, bits);
            let e: Option<BigInt> = if ok { Some(div_floor(&x, &BigInt::from(pow2(s))).0) } else { None };
            let w = e.clone().unwrap_or_else(|| fill.clone());
            let oi = |o: Option<Int<L>>| o.map(|v| ib(&v));
            check!(c, call(|| copt(a.overflowing_shr(s))).map(oi), e.clone(); x, s);
            check!(c, call(|| copt(a.overflowing_shr_vartime(s))).map(oi), e.clone(); x, s);
            check!(c, call(|| opt(ShrVartime::overflowing_shr_vartime(&a, s))).map(oi), e.clone(); x, s);
            check!(c, call(|| a.wrapping_shr(s)).map(|v| ib(&v)), w.clone(); x, s);
            check!(c, call(|| a.wrapping_shr_vartime(s)).map(|v| ib(&v)), w.clone(); x, s);
            check!(c, call(|| WrappingShr::wrapping_shr(&a, s)).map(|v| ib(&v)), w.clone(); x, s);
            check!(c, call(|| ShrVartime::wrapping_shr_vartime(&a, s)).map(|v| ib(&v)), w.clone(); x, s);
            in_range_or_panic!(c, ok, pan, call(|| a.shr(s)).map(|v| ib(&v)), w.clone(); x, s);
            in_range_or_panic!(c, ok, pan, call(|| a.shr_vartime(s)).map(|v| ib(&v)), w.clone(); x, s);
            in_range_or_panic!(c, ok, pan, call(|| a >> s).map(|v| ib(&v)), w.clone(); x, s);
            in_range_or_panic!(c, ok, pan, call(|| &a >> s).map(|v| ib(&v)), w.clone(); x, s);
            in_range_or_panic!(c, ok, pan, call(|| { let mut t = a; t >>= s; t }).map(|v| ib(&v)), w.clone(); x, s);
            let su = s as usize;
            in_range_or_panic!(c, ok, pan, call(|| a >> su).map(|v| ib(&v)), w.clone(); x, s);
            in_range_or_panic!(c, ok, pan, call(|| { let mut t = a; t >>= su; t }).map(|v| ib(&v)), w.clone(); x, s);
            if s <= i32::MAX as u32 {
                let si = s as i32;
                in_range_or_panic!(c, ok, pan, call(|| a >> si).map(|v| ib(&v)), w.clone(); x, s);
                in_range_or_panic!(c, ok, pan, call(|| { let mut t = a; t >>= si; t }).map(|v| ib(&v)), w.clone(); x, s);
            }
        }
    }
}

// ---------------------------------------------------------------- BoxedUint shifts

/// value and precision of a boxed result
fn xs(v: &BoxedUint) -> (BigUint, usize) {
    (xb(v), v.nlimbs())
}

fn boxed_shl(c: &mut Ctx) {
    for nl in [1usize, 2, 3, 4, 5] {
        let bits = 64 * nl as u32;
        let ks = shift_amounts(bits);
        let m = mask(bits);
        for (vi, x) in c.scaled(5, |c| shift_values(c, nl, ks.len())).into_iter().enumerate() {
            let a = bx(&x, nl);
            for &s in &ks {
                if c.done() {
                    return;
                }
                let ok = s < bits;
            let pan = panic_wanted(vi, s, bits);
                let w = if ok { (&x << s as usize) & &m } else { BigUint::zero() };
                let e = if ok { Some((w.clone(), nl)) } else { None };
                // (zero, true) when shift >= bits_precision, (result, false) otherwise
                check!(c, call(|| a.overflowing_shl(s)).map(|(v, o)| (xb(&v), v.nlimbs(), cb(o))), (w.clone(), nl, !ok); x, nl, s);
                check!(c, call(|| { let mut t = a.clone(); let o = t.overflowing_shl_assign(s); (xb(&t), t.nlimbs(), cb(o)) }), (w.clone(), nl, !ok); x, nl, s);
                check!(c, call(|| a.shl_vartime(s)).map(|o| o.map(|v| xs(&v))), e.clone(); x, nl, s);
                check!(c, call(|| opt(ShlVartime::overflowing_shl_vartime(&a, s))).map(|o| o.map(|v| xs(&v))), e.clone(); x, nl, s);
                check!(c, call(|| a.wrapping_shl(s)).map(|v| xs(&v)), (w.clone(), nl); x, nl, s);
                check!(c, call(|| a.wrapping_shl_vartime(s)).map(|v| xs(&v)), (w.clone(), nl); x, nl, s);
                check!(c, call(|| WrappingShl::wrapping_shl(&a, s)).map(|v| xs(&v)), (w.clone(), nl); x, nl, s);
                check!(c, call(|| ShlVartime::wrapping_shl_vartime(&a, s)).map(|v| xs(&v)), (w.clone(), nl); x, nl, s);
                check!(c, call(|| Wrapping(a.clone()) << s).map(|v| xs(&v.0)), (w.clone(), nl); x, nl, s);
                // documented: panics if shift >= the precision
                in_range_or_panic!(c, ok, pan, call(|| a.shl(s)).map(|v| xs(&v)), (w.clone(), nl); x, nl, s);
                in_range_or_panic!(c, ok, pan, call(|| { let mut t = a.clone(); BoxedUint::shl_assign(&mut t, s); t }).map(|v| xs(&v)), (w.clone(), nl); x, nl, s);
                in_range_or_panic!(c, ok, pan, call(|| &a << s).map(|v| xs(&v)), (w.clone(), nl); x, nl, s);
                in_range_or_panic!(c, ok, pan, call(|| a.clone() << s).map(|v| xs(&v)), (w.clone(), nl); x, nl, s);
                in_range_or_panic!(c, ok, pan, call(|| { let mut t = a.clone(); t <<= s; t }).map(|v| xs(&v)), (w.clone(), nl); x, nl, s);
                let su = s as usize;
                in_range_or_panic!(c, ok, pan, call(|| &a << su).map(|v| xs(&v)), (w.clone(), nl); x, nl, s);
                in_range_or_panic!(c, ok, pan, call(|| { let mut t = a.clone(); t <<= su; t }).map(|v| xs(&v)), (w.clone(), nl); x, nl, s);
                if s <= i32::MAX as u32 {
                    let si = s as i32;
                    in_range_or_panic!(c, ok, pan, call(|| &a << si).map(|v| xs(&v)), (w.clone(), nl); x, nl, s);
                    in_range_or_panic!(c, ok, pan, call(|| { let mut t = a.clone(); t <<= si; t }).map(|v| xs(&v)), (w.clone(), nl); x, nl, s);
                }
            }
        }
    }
}

fn boxed_shr(c: &mut Ctx) {
    for nl in [1usize, 2, 3, 4, 5] {
        let bits = 64 * nl as u32;
        let ks = shift_amounts(bits);
        for (vi, x) in c.scaled(5, |c| shift_values(c, nl, ks.len())).into_iter().enumerate() {
            let a = bx(&x, nl);
            for &s in &ks {
                if c.done() {
                    return;
                }
                let ok = s < bits;
            let pan = panic_wanted(vi, s, bits);
                let w = if ok { &x >> s as usize } else { BigUint::zero() };
                let e = if ok { Some((w.clone(), nl)) } else { None };
                check!(c, call(|| a.overflowing_shr(s)).map(|(v, o)| (xb(&v), v.nlimbs(), cb(o))), (w.clone(), nl, !ok); x, nl, s);
                check!(c, call(|| { let mut t = a.clone(); let o = t.overflowing_shr_assign(s); (xb(&t), t.nlimbs(), cb(o)) }), (w.clone(), nl, !ok); x, nl, s);
                check!(c, call(|| a.shr_vartime(s)).map(|o| o.map(|v| xs(&v))), e.clone(); x, nl, s);
                check!(c, call(|| opt(ShrVartime::overflowing_shr_vartime(&a, s))).map(|o| o.map(|v| xs(&v))), e.clone(); x, nl, s);
                check!(c, call(|| a.wrapping_shr(s)).map(|v| xs(&v)), (w.clone(), nl); x, nl, s);
                check!(c, call(|| a.wrapping_shr_vartime(s)).map(|v| xs(&v)), (w.clone(), nl); x, nl, s);
                check!(c, call(|| WrappingShr::wrapping_shr(&a, s)).map(|v| xs(&v)), (w.clone(), nl); x, nl, s);
                check!(c, call(|| ShrVartime::wrapping_shr_vartime(&a, s)).map(|v| xs(&v)), (w.clone(), nl); x, nl, s);
                check!(c, call(|| Wrapping(a.clone()) >> s).map(|v| xs(&v.0)), (w.clone(), nl); x, nl, s);
                in_range_or_panic!(c, ok, pan, call(|| a.shr(s)).map(|v| xs(&v)), (w.clone(), nl); x, nl, s);
                in_range_or_panic!(c, ok, pan, call(|| { let mut t = a.clone(); BoxedUint::shr_assign(&mut t, s); t }).map(|v| xs(&v)), (w.clone(), nl); x, nl, s);
                in_range_or_panic!(c, ok, pan, call(|| &a >> s).map(|v| xs(&v)), (w.clone(), nl); x, nl, s);
                in_range_or_panic!(c, ok, pan, call(|| a.clone() >> s).map(|v| xs(&v)), (w.clone(), nl); x, nl, s);
                in_range_or_panic!(c, ok, pan, call(|| { let mut t = a.clone(); t >>= s; t }).map(|v| xs(&v)), (w.clone(), nl); x, nl, s);
                let su = s as usize;
                in_range_or_panic!(c, ok, pan, call(|| &a >> su).map(|v| xs(&v)), (w.clone(), nl); x, nl, s);
                in_range_or_panic!(c, ok, pan, call(|| { let mut t = a.clone(); t >>= su; t }).map(|v| xs(&v)), (w.clone(), nl); x, nl, s);
                if s <= i32::MAX as u32 {
                    let si = s as i32;
                    in_range_or_panic!(c, ok, pan, call(|| &a >> si).map(|v| xs(&v)), (w.clone(), nl); x, nl, s);
                    in_range_or_panic!(c, ok, pan, call(|| { let mut t = a.clone(); t >>= si; t }).map(|v| xs(&v)), (w.clone(), nl); x, nl, s);
                }
            }
        }
    }
}

// ---------------------------------------------------------------- Limb shifts

fn limb_shifts(c: &mut Ctx) {
    let ks = shift_amounts(64);
    let m = mask(64);
    let mut vals = c.edges(1, 10);
    vals.extend((0..64).step_by(7).map(pow2));
    for _ in 0..(c.iters / 100).clamp(4, 20) {
        vals.push(c.rnd(1));
    }
    for (vi, x) in vals.into_iter().enumerate() {
        let a = bl(&x);
        for &s in &ks {
            if c.done() {
                return;
            }
            let ok = s < 64;
            let pan = panic_wanted(vi, s, 64);
            let (l, r) = if ok { ((&x << s as usize) & &m, &x >> s as usize) } else { (BigUint::zero(), BigUint::zero()) };
            // documented: panics if `shift` overflows Limb::BITS
            in_range_or_panic!(c, ok, pan, call(|| a.shl(s)).map(lb), l.clone(); x, s);
            in_range_or_panic!(c, ok, pan, call(|| a.shr(s)).map(lb), r.clone(); x, s);
            in_range_or_panic!(c, ok, pan, call(|| a << s).map(lb), l.clone(); x, s);
            in_range_or_panic!(c, ok, pan, call(|| a >> s).map(lb), r.clone(); x, s);
            in_range_or_panic!(c, ok, pan, call(|| &a << s).map(lb), l.clone(); x, s);
            in_range_or_panic!(c, ok, pan, call(|| &a >> s).map(lb), r.clone(); x, s);
            in_range_or_panic!(c, ok, pan, call(|| { let mut t = a; t <<= s; t }).map(lb), l.clone(); x, s);
            in_range_or_panic!(c, ok, pan, call(|| { let mut t = a; t >>= s; t }).map(lb), r.clone(); x, s);
            let su = s as usize;
            in_range_or_panic!(c, ok, pan, call(|| a << su).map(lb), l.clone(); x, s);
            in_range_or_panic!(c, ok, pan, call(|| a >> su).map(lb), r.clone(); x, s);
            in_range_or_panic!(c, ok, pan, call(|| { let mut t = a; t <<= su; t }).map(lb), l.clone(); x, s);
            in_range_or_panic!(c, ok, pan, call(|| { let mut t = a; t >>= su; t }).map(lb), r.clone(); x, s);
            if s <= i32::MAX as u32 {
                let si = s as i32;
                in_range_or_panic!(c, ok, pan, call(|| a << si).map(lb), l.clone(); x, s);
                in_range_or_panic!(c, ok, pan, call(|| a >> si).map(lb), r.clone(); x, s);
                in_range_or_panic!(c, ok, pan, call(|| { let mut t = a; t <<= si; t }).map(lb), l.clone(); x, s);
                in_range_or_panic!(c, ok, pan, call(|| { let mut t = a; t >>= si; t }).map(lb), r.clone(); x, s);
            }
            // num_traits::WrappingShl / WrappingShr: documented as shifting by `s` with the high
            // bits of `s` masked off (the primitive-integer meaning)
            let sm = (s % 64) as usize;
            check!(c, call(|| WrappingShl::wrapping_shl(&a, s)).map(lb), (&x << sm) & &m; x, s);
            check!(c, call(|| WrappingShr::wrapping_shr(&a, s)).map(lb), &x >> sm; x, s);
        }
    }
}

// ---------------------------------------------------------------- bit queries

fn tz(x: &BigUint, bits: u32) -> u32 {
    x.trailing_zeros().map(|z| z as u32).unwrap_or(bits)
}

/// trailing ones of x = trailing zeros of x + 1 (MAX + 1 = 2^bits gives `bits`)
fn to(x: &BigUint) -> u32 {
    (x + 1u32).trailing_zeros().unwrap() as u32
}

fn uint_bit_counts<const L: usize>(c: &mut Ctx) {
    let bits = 64 * L as u32;
    for x in bit_values(c, L) {
        if c.done() {
            return;
        }
        let a = bu::<L>(&x);
        let n = x.bits() as u32;
        check!(c, call(|| a.bits()), n; x);
        check!(c, call(|| a.bits_vartime()), n; x);
        check!(c, call(|| BitOps::bits(&a)), n; x);
        check!(c, call(|| BitOps::bits_vartime(&a)), n; x);
        check!(c, call(|| a.leading_zeros()), bits - n; x);
        check!(c, call(|| a.leading_zeros_vartime()), bits - n; x);
        check!(c, call(|| BitOps::leading_zeros(&a)), bits - n; x);
        check!(c, call(|| BitOps::leading_zeros_vartime(&a)), bits - n; x);
        check!(c, call(|| a.trailing_zeros()), tz(&x, bits); x);
        check!(c, call(|| a.trailing_zeros_vartime()), tz(&x, bits); x);
        check!(c, call(|| BitOps::trailing_zeros(&a)), tz(&x, bits); x);
        check!(c, call(|| BitOps::trailing_zeros_vartime(&a)), tz(&x, bits); x);
        check!(c, call(|| a.trailing_ones()), to(&x); x);
        check!(c, call(|| a.trailing_ones_vartime()), to(&x); x);
        check!(c, call(|| BitOps::trailing_ones(&a)), to(&x); x);
        check!(c, call(|| BitOps::trailing_ones_vartime(&a)), to(&x); x);
    }
    let a = Uint::<L>::ZERO;
    let l = L;
    check!(c, call(|| BitOps::bits_precision(&a)), bits; l);
    check!(c, call(|| BitOps::bytes_precision(&a)), 8 * L; l);
    check!(c, call(|| BitOps::log2_bits(&a)), 31 - bits.leading_zeros(); l);
    check!(c, call(|| Uint::<L>::BITS), bits; l);
}

/// Values for the "every index" loops.
fn index_values(c: &mut Ctx, l: usize, n_idx: usize) -> Vec<BigUint> {
    let bits = 64 * l as u32;
    let max = mask(bits);
    let mut v = vec![BigUint::zero(), max.clone(), BigUint::one(), pow2(bits - 1), &max / 3u32, (&max / 3u32) << 1];
    for i in boundaries(l) {
        v.push(pow2(64 * i as u32) - 1u32);
        v.push(pow2(64 * i as u32 - 1) | pow2(64 * i as u32));
    }
    let n = (c.cap / n_idx).clamp(6, 32);
    v.extend(c.edges(l, n));
    for _ in 0..(c.iters / 100).clamp(4, 20) {
        v.push(c.rnd(l));
    }
    v
}

fn indices(bits: u32) -> Vec<u32> {
    let mut v: Vec<u32> = (0..=bits + 65).collect();
    v.extend([2 * bits, 2 * bits + 63, 1 << 16, 1 << 31, (1 << 31) + 1, u32::MAX - 64, u32::MAX - 63, u32::MAX - 1, u32::MAX]);
    v
}

fn uint_bit_test<const L: usize>(c: &mut Ctx) {
    let bits = 64 * L as u32;
    let idx = indices(bits);
    for x in index_values(c, L, idx.len()) {
        let a = bu::<L>(&x);
        for &i in &idx {
            if c.done() {
                return;
            }
            // documented: the falsy value for indices out of range
            let e = i < bits && x.bit(i as u64);
            check!(c, call(|| ccb(a.bit(i))), e; x, i);
            check!(c, call(|| a.bit_vartime(i)), e; x, i);
            check!(c, call(|| cb(BitOps::bit(&a, i))), e; x, i);
            check!(c, call(|| BitOps::bit_vartime(&a, i)), e; x, i);
        }
    }
}

fn uint_set_bit<const L: usize>(c: &mut Ctx) {
    let bits = 64 * L as u32;
    for x in index_values(c, L, 2 * bits as usize) {
        let a = bu::<L>(&x);
        for i in 0..bits {
            for b in [false, true] {
                if c.done() {
                    return;
                }
                let mut e = x.clone();
                e.set_bit(i as u64, b);
                check!(c, call(|| { let mut t = a; BitOps::set_bit(&mut t, i, Choice::from(b as u8)); t }).map(|v| ub(&v)), e.clone(); x, i, b);
                check!(c, call(|| { let mut t = a; BitOps::set_bit_vartime(&mut t, i, b); t }).map(|v| ub(&v)), e; x, i, b);
            }
        }
    }
}

fn boxed_bits(c: &mut Ctx) {
    for nl in [1usize, 2, 3, 4, 5] {
        let bits = 64 * nl as u32;
        for x in c.scaled(5, |c| bit_values(c, nl)) {
            if c.done() {
                return;
            }
            let a = bx(&x, nl);
            let n = x.bits() as u32;
            check!(c, call(|| a.bits()), n; x, nl);
            check!(c, call(|| a.bits_vartime()), n; x, nl);
            check!(c, call(|| BitOps::bits(&a)), n; x, nl);
            check!(c, call(|| BitOps::bits_vartime(&a)), n; x, nl);
            check!(c, call(|| a.leading_zeros()), bits - n; x, nl);
            check!(c, call(|| BitOps::leading_zeros(&a)), bits - n; x, nl);
            check!(c, call(|| BitOps::leading_zeros_vartime(&a)), bits - n; x, nl);
            check!(c, call(|| a.trailing_zeros()), tz(&x, bits); x, nl);
            check!(c, call(|| a.trailing_zeros_vartime()), tz(&x, bits); x, nl);
            check!(c, call(|| BitOps::trailing_zeros(&a)), tz(&x, bits); x, nl);
            check!(c, call(|| BitOps::trailing_zeros_vartime(&a)), tz(&x, bits); x, nl);
            check!(c, call(|| a.trailing_ones()), to(&x); x, nl);
            check!(c, call(|| a.trailing_ones_vartime()), to(&x); x, nl);
            check!(c, call(|| BitOps::trailing_ones(&a)), to(&x); x, nl);
            check!(c, call(|| BitOps::trailing_ones_vartime(&a)), to(&x); x, nl);
            check!(c, call(|| a.bits_precision()), bits; x, nl);
            check!(c, call(|| BitOps::bits_precision(&a)), bits; x, nl);
            check!(c, call(|| BitOps::bytes_precision(&a)), 8 * nl; x, nl);
            check!(c, call(|| BitOps::log2_bits(&a)), 31 - bits.leading_zeros(); x, nl);
        }
        let idx = indices(bits);
        for x in c.scaled(5, |c| index_values(c, nl, 3 * idx.len())) {
            let a = bx(&x, nl);
            for &i in &idx {
                if c.done() {
                    return;
                }
                let e = i < bits && x.bit(i as u64);
                check!(c, call(|| cb(a.bit(i))), e; x, nl, i);
                check!(c, call(|| a.bit_vartime(i)), e; x, nl, i);
                check!(c, call(|| cb(BitOps::bit(&a, i))), e; x, nl, i);
                check!(c, call(|| BitOps::bit_vartime(&a, i)), e; x, nl, i);
                if i < bits {
                    for b in [false, true] {
                        let mut e = x.clone();
                        e.set_bit(i as u64, b);
                        check!(c, call(|| { let mut t = a.clone(); BitOps::set_bit(&mut t, i, Choice::from(b as u8)); t }).map(|v| xs(&v)), (e.clone(), nl); x, nl, i, b);
                        check!(c, call(|| { let mut t = a.clone(); BitOps::set_bit_vartime(&mut t, i, b); t }).map(|v| xs(&v)), (e, nl); x, nl, i, b);
                    }
                }
            }
        }
    }
}

fn limb_bits(c: &mut Ctx) {
    for x in bit_values(c, 1) {
        if c.done() {
            return;
        }
        let a = bl(&x);
        let n = x.bits() as u32;
        check!(c, call(|| a.bits()), n; x);
        check!(c, call(|| a.leading_zeros()), 64 - n; x);
        check!(c, call(|| a.trailing_zeros()), tz(&x, 64); x);
        check!(c, call(|| a.trailing_ones()), to(&x); x);
    }
}

// ---------------------------------------------------------------- bitwise operators

fn uint_bitwise<const L: usize>(c: &mut Ctx) {
    let m = mask(64 * L as u32);
    for (x, y) in c.inputs2(L, L) {
        if c.done() {
            return;
        }
        let (a, b) = (bu::<L>(&x), bu::<L>(&y));
        let (and, or, xor, not) = (&x & &y, &x | &y, &x ^ &y, &m ^ &x);
        let ou = |o: Option<Uint<L>>| o.map(|v| ub(&v));
        check!(c, call(|| a.bitand(&b)).map(|v| ub(&v)), and.clone(); x, y);
        check!(c, call(|| a.wrapping_and(&b)).map(|v| ub(&v)), and.clone(); x, y);
        check!(c, call(|| opt(a.checked_and(&b))).map(ou), Some(and.clone()); x, y);
        check!(c, call(|| a & b).map(|v| ub(&v)), and.clone(); x, y);
        check!(c, call(|| a & &b).map(|v| ub(&v)), and.clone(); x, y);
        check!(c, call(|| &a & b).map(|v| ub(&v)), and.clone(); x, y);
        check!(c, call(|| &a & &b).map(|v| ub(&v)), and.clone(); x, y);
        check!(c, call(|| { let mut t = a; t &= b; t }).map(|v| ub(&v)), and.clone(); x, y);
        check!(c, call(|| { let mut t = a; t &= &b; t }).map(|v| ub(&v)), and.clone(); x, y);
        check!(c, call(|| Wrapping(a) & Wrapping(b)).map(|v| ub(&v.0)), and.clone(); x, y);
        check!(c, call(|| &Wrapping(a) & &Wrapping(b)).map(|v| ub(&v.0)), and.clone(); x, y);
        check!(c, call(|| { let mut t = Wrapping(a); t &= Wrapping(b); t }).map(|v| ub(&v.0)), and.clone(); x, y);
        check!(c, call(|| a.bitor(&b)).map(|v| ub(&v)), or.clone(); x, y);
        check!(c, call(|| a.wrapping_or(&b)).map(|v| ub(&v)), or.clone(); x, y);
        check!(c, call(|| opt(a.checked_or(&b))).map(ou), Some(or.clone()); x, y);
        check!(c, call(|| a | b).map(|v| ub(&v)), or.clone(); x, y);
        check!(c, call(|| a | &b).map(|v| ub(&v)), or.clone(); x, y);
        check!(c, call(|| &a | b).map(|v| ub(&v)), or.clone(); x, y);
        check!(c, call(|| &a | &b).map(|v| ub(&v)), or.clone(); x, y);
        check!(c, call(|| { let mut t = a; t |= b; t }).map(|v| ub(&v)), or.clone(); x, y);
        check!(c, call(|| { let mut t = a; t |= &b; t }).map(|v| ub(&v)), or.clone(); x, y);
        check!(c, call(|| Wrapping(a) | Wrapping(b)).map(|v| ub(&v.0)), or.clone(); x, y);
        check!(c, call(|| &Wrapping(a) | &Wrapping(b)).map(|v| ub(&v.0)), or.clone(); x, y);
        check!(c, call(|| { let mut t = Wrapping(a); t |= Wrapping(b); t }).map(|v| ub(&v.0)), or.clone(); x, y);
        check!(c, call(|| a.bitxor(&b)).map(|v| ub(&v)), xor.clone(); x, y);
        check!(c, call(|| a.wrapping_xor(&b)).map(|v| ub(&v)), xor.clone(); x, y);
        check!(c, call(|| opt(a.checked_xor(&b))).map(ou), Some(xor.clone()); x, y);
        check!(c, call(|| a ^ b).map(|v| ub(&v)), xor.clone(); x, y);
        check!(c, call(|| a ^ &b).map(|v| ub(&v)), xor.clone(); x, y);
        check!(c, call(|| &a ^ b).map(|v| ub(&v)), xor.clone(); x, y);
        check!(c, call(|| &a ^ &b).map(|v| ub(&v)), xor.clone(); x, y);
        check!(c, call(|| { let mut t = a; t ^= b; t }).map(|v| ub(&v)), xor.clone(); x, y);
        check!(c, call(|| { let mut t = a; t ^= &b; t }).map(|v| ub(&v)), xor.clone(); x, y);
        check!(c, call(|| Wrapping(a) ^ Wrapping(b)).map(|v| ub(&v.0)), xor.clone(); x, y);
        check!(c, call(|| &Wrapping(a) ^ &Wrapping(b)).map(|v| ub(&v.0)), xor.clone(); x, y);
        check!(c, call(|| { let mut t = Wrapping(a); t ^= Wrapping(b); t }).map(|v| ub(&v.0)), xor.clone(); x, y);
        check!(c, call(|| a.not()).map(|v| ub(&v)), not.clone(); x);
        check!(c, call(|| !a).map(|v| ub(&v)), not.clone(); x);
        check!(c, call(|| !Wrapping(a)).map(|v| ub(&v.0)), not.clone(); x);
        // AND with one limb applied to every limb
        let w = big_to_words(&y, 1)[0];
        let rep = words_to_big(&vec![w; L]);
        check!(c, call(|| a.bitand_limb(Limb(w))).map(|v| ub(&v)), &x & &rep; x, w);
    }
}

/// Int bitwise operators act on the two's complement words.
fn int_bitwise<const L: usize>(c: &mut Ctx) {
    let m = mask(64 * L as u32);
    let iw = |v: &Int<L>| words_to_big(v.as_words());
    for (x, y) in c.inputs2(L, L) {
        if c.done() {
            return;
        }
        let (a, b) = (Int::<L>::from_words(bu::<L>(&x).to_words()), Int::<L>::from_words(bu::<L>(&y).to_words()));
        let (and, or, xor, not) = (&x & &y, &x | &y, &x ^ &y, &m ^ &x);
        let oi = |o: Option<Int<L>>| o.map(|v| words_to_big(v.as_words()));
        check!(c, call(|| a.bitand(&b)).map(|v| iw(&v)), and.clone(); x, y);
        check!(c, call(|| a.wrapping_and(&b)).map(|v| iw(&v)), and.clone(); x, y);
        check!(c, call(|| copt(a.checked_and(&b))).map(oi), Some(and.clone()); x, y);
        check!(c, call(|| a & b).map(|v| iw(&v)), and.clone(); x, y);
        check!(c, call(|| a & &b).map(|v| iw(&v)), and.clone(); x, y);
        check!(c, call(|| &a & b).map(|v| iw(&v)), and.clone(); x, y);
        check!(c, call(|| &a & &b).map(|v| iw(&v)), and.clone(); x, y);
        check!(c, call(|| { let mut t = a; t &= b; t }).map(|v| iw(&v)), and.clone(); x, y);
        check!(c, call(|| { let mut t = a; t &= &b; t }).map(|v| iw(&v)), and.clone(); x, y);
        check!(c, call(|| Wrapping(a) & Wrapping(b)).map(|v| iw(&v.0)), and.clone(); x, y);
        check!(c, call(|| a.bitor(&b)).map(|v| iw(&v)), or.clone(); x, y);
        check!(c, call(|| a.wrapping_or(&b)).map(|v| iw(&v)), or.clone(); x, y);
        check!(c, call(|| copt(a.checked_or(&b))).map(oi), Some(or.clone()); x, y);
        check!(c, call(|| a | b).map(|v| iw(&v)), or.clone(); x, y);
        check!(c, call(|| a | &b).map(|v| iw(&v)), or.clone(); x, y);
        check!(c, call(|| &a | b).map(|v| iw(&v)), or.clone(); x, y);
        check!(c, call(|| &a | &b).map(|v| iw(&v)), or.clone(); x, y);
        check!(c, call(|| { let mut t = a; t |= b; t }).map(|v| iw(&v)), or.clone(); x, y);
        check!(c, call(|| { let mut t = a; t |= &b; t }).map(|v| iw(&v)), or.clone(); x, y);
        check!(c, call(|| Wrapping(a) | Wrapping(b)).map(|v| iw(&v.0)), or.clone(); x, y);
        check!(c, call(|| a.bitxor(&b)).map(|v| iw(&v)), xor.clone(); x, y);
        check!(c, call(|| a.wrapping_xor(&b)).map(|v| iw(&v)), xor.clone(); x, y);
        check!(c, call(|| copt(a.checked_xor(&b))).map(oi), Some(xor.clone()); x, y);
        check!(c, call(|| a ^ b).map(|v| iw(&v)), xor.clone(); x, y);
        check!(c, call(|| a ^ &b).map(|v| iw(&v)), xor.clone(); x, y);
        check!(c, call(|| &a ^ b).map(|v| iw(&v)), xor.clone(); x, y);
        check!(c, call(|| &a ^ &b).map(|v| iw(&v)), xor.clone(); x, y);
        check!(c, call(|| { let mut t = a; t ^= b; t }).map(|v| iw(&v)), xor.clone(); x, y);
        check!(c, call(|| { let mut t = a; t ^= &b; t }).map(|v| iw(&v)), xor.clone(); x, y);
        check!(c, call(|| Wrapping(a) ^ Wrapping(b)).map(|v| iw(&v.0)), xor.clone(); x, y);
        check!(c, call(|| a.not()).map(|v| iw(&v)), not.clone(); x);
        check!(c, call(|| !a).map(|v| iw(&v)), not.clone(); x);
        check!(c, call(|| !Wrapping(a)).map(|v| iw(&v.0)), not.clone(); x);
        let w = big_to_words(&y, 1)[0];
        let rep = words_to_big(&vec![w; L]);
        check!(c, call(|| a.bitand_limb(Limb(w))).map(|v| iw(&v)), &x & &rep; x, w);
    }
}

/// Assigning forms with a wider right-hand side: the precision of the result is not documented
/// (`&=` widens, `|=` / `^=` keep the precision of `self`); the value must be the exact result
/// truncated to whatever precision comes back, which must be that of `self` or the wider one.
macro_rules! assign_form {
    ($c:ident, $e:expr, $full:expr, $la:expr; $($n:ident),*) => {{
        let got = call(|| $e).map(|v| xs(&v));
        let exp = match &got {
            Ok((_, n)) if *n == $la => (&$full.0 & mask(64 * $la as u32), $la),
            _ => $full.clone(),
        };
        check!($c, got, exp; $($n),*);
    }};
}

fn boxed_bitwise(c: &mut Ctx) {
    // equal and mixed precisions: the shorter operand is zero-extended, the result has the larger precision
    let shapes = [(1usize, 1usize), (2, 2), (3, 3), (4, 4), (5, 5), (1, 2), (2, 1), (1, 4), (4, 1), (3, 4), (4, 3), (2, 5)];
    for (la, lb_) in shapes {
        let nl = la.max(lb_);
        for (x, y) in c.scaled(shapes.len(), |c| c.inputs2(la, lb_)) {
            if c.done() {
                return;
            }
            let (a, b) = (bx(&x, la), bx(&y, lb_));
            let (and, or, xor) = ((&x & &y, nl), (&x | &y, nl), (&x ^ &y, nl));
            let ox = |o: Option<BoxedUint>| o.map(|v| xs(&v));
            check!(c, call(|| a.bitand(&b)).map(|v| xs(&v)), and.clone(); x, y, la, lb_);
            check!(c, call(|| a.wrapping_and(&b)).map(|v| xs(&v)), and.clone(); x, y, la, lb_);
            check!(c, call(|| opt(a.checked_and(&b))).map(ox), Some(and.clone()); x, y, la, lb_);
            check!(c, call(|| &a & &b).map(|v| xs(&v)), and.clone(); x, y, la, lb_);
            check!(c, call(|| a.clone() & &b).map(|v| xs(&v)), and.clone(); x, y, la, lb_);
            check!(c, call(|| &a & b.clone()).map(|v| xs(&v)), and.clone(); x, y, la, lb_);
            check!(c, call(|| a.clone() & b.clone()).map(|v| xs(&v)), and.clone(); x, y, la, lb_);
            assign_form!(c, { let mut t = a.clone(); t &= &b; t }, and, la; x, y, la, lb_);
            assign_form!(c, { let mut t = a.clone(); t &= b.clone(); t }, and, la; x, y, la, lb_);
            check!(c, call(|| Wrapping(a.clone()) & Wrapping(b.clone())).map(|v| xs(&v.0)), and.clone(); x, y, la, lb_);
            check!(c, call(|| a.bitor(&b)).map(|v| xs(&v)), or.clone(); x, y, la, lb_);
            check!(c, call(|| a.wrapping_or(&b)).map(|v| xs(&v)), or.clone(); x, y, la, lb_);
            check!(c, call(|| opt(a.checked_or(&b))).map(ox), Some(or.clone()); x, y, la, lb_);
            check!(c, call(|| &a | &b).map(|v| xs(&v)), or.clone(); x, y, la, lb_);
            check!(c, call(|| a.clone() | &b).map(|v| xs(&v)), or.clone(); x, y, la, lb_);
            check!(c, call(|| &a | b.clone()).map(|v| xs(&v)), or.clone(); x, y, la, lb_);
            check!(c, call(|| a.clone() | b.clone()).map(|v| xs(&v)), or.clone(); x, y, la, lb_);
            assign_form!(c, { let mut t = a.clone(); t |= &b; t }, or, la; x, y, la, lb_);
            assign_form!(c, { let mut t = a.clone(); t |= b.clone(); t }, or, la; x, y, la, lb_);
            check!(c, call(|| Wrapping(a.clone()) | Wrapping(b.clone())).map(|v| xs(&v.0)), or.clone(); x, y, la, lb_);
            check!(c, call(|| a.bitxor(&b)).map(|v| xs(&v)), xor.clone(); x, y, la, lb_);
            check!(c, call(|| a.wrapping_xor(&b)).map(|v| xs(&v)), xor.clone(); x, y, la, lb_);
            check!(c, call(|| opt(a.checked_xor(&b))).map(ox), Some(xor.clone()); x, y, la, lb_);
            check!(c, call(|| &a ^ &b).map(|v| xs(&v)), xor.clone(); x, y, la, lb_);
            check!(c, call(|| a.clone() ^ &b).map(|v| xs(&v)), xor.clone(); x, y, la, lb_);
            check!(c, call(|| &a ^ b.clone()).map(|v| xs(&v)), xor.clone(); x, y, la, lb_);
            check!(c, call(|| a.clone() ^ b.clone()).map(|v| xs(&v)), xor.clone(); x, y, la, lb_);
            assign_form!(c, { let mut t = a.clone(); t ^= &b; t }, xor, la; x, y, la, lb_);
            assign_form!(c, { let mut t = a.clone(); t ^= b.clone(); t }, xor, la; x, y, la, lb_);
            check!(c, call(|| Wrapping(a.clone()) ^ Wrapping(b.clone())).map(|v| xs(&v.0)), xor.clone(); x, y, la, lb_);
            let not = (mask(64 * la as u32) ^ &x, la);
            check!(c, call(|| a.not()).map(|v| xs(&v)), not.clone(); x, la);
            check!(c, call(|| !a.clone()).map(|v| xs(&v)), not.clone(); x, la);
            check!(c, call(|| !Wrapping(a.clone())).map(|v| xs(&v.0)), not.clone(); x, la);
            let w = big_to_words(&y, 1)[0];
            let rep = words_to_big(&vec![w; la]);
            check!(c, call(|| a.bitand_limb(Limb(w))).map(|v| xs(&v)), (&x & &rep, la); x, w, la);
        }
    }
}

fn limb_bitwise(c: &mut Ctx) {
    let m = mask(64);
    for (x, y) in c.inputs2(1, 1) {
        if c.done() {
            return;
        }
        let (a, b) = (bl(&x), bl(&y));
        check!(c, call(|| a.bitand(b)).map(lb), &x & &y; x, y);
        check!(c, call(|| a & b).map(lb), &x & &y; x, y);
        check!(c, call(|| { let mut t = a; t &= b; t }).map(lb), &x & &y; x, y);
        check!(c, call(|| { let mut t = a; t &= &b; t }).map(lb), &x & &y; x, y);
        check!(c, call(|| a.bitor(b)).map(lb), &x | &y; x, y);
        check!(c, call(|| a | b).map(lb), &x | &y; x, y);
        check!(c, call(|| { let mut t = a; t |= b; t }).map(lb), &x | &y; x, y);
        check!(c, call(|| { let mut t = a; t |= &b; t }).map(lb), &x | &y; x, y);
        check!(c, call(|| a.bitxor(b)).map(lb), &x ^ &y; x, y);
        check!(c, call(|| a ^ b).map(lb), &x ^ &y; x, y);
        check!(c, call(|| { let mut t = a; t ^= b; t }).map(lb), &x ^ &y; x, y);
        check!(c, call(|| a.not()).map(lb), &m ^ &x; x);
        check!(c, call(|| !a).map(lb), &m ^ &x; x);
    }
}

pub fn cases() -> Vec<Case> {
    let mut v = Vec::new();
    ucases!(v, "shl family (shl/_vartime/overflowing/wrapping/<< <<=/ShlVartime/WrappingShl) all shifts", uint_shl; 1, 2, 3, 4, 5, 6, 8, 16);
    ucases!(v, "shr family (shr/_vartime/overflowing/wrapping/>> >>=/ShrVartime/WrappingShr) all shifts", uint_shr; 1, 2, 3, 4, 5, 6, 8, 16);
    ucases!(v, "overflowing_shl_vartime_wide/overflowing_shr_vartime_wide all shifts", uint_wide; 1, 2, 3, 4, 5, 6, 16);
    icases!(v, "shl family all shifts", int_shl; 1, 2, 3, 4, 5, 16);
    icases!(v, "shr family (arithmetic, sign fill) all shifts", int_shr; 1, 2, 3, 4, 5, 16);
    case!(v, "BoxedUint::shl family (1..=5 limbs) all shifts", boxed_shl);
    case!(v, "BoxedUint::shr family (1..=5 limbs) all shifts", boxed_shr);
    case!(v, "Limb::shl/shr/operators/WrappingShl/WrappingShr all shifts", limb_shifts);
    ucases!(v, "bits/leading_zeros/trailing_zeros/trailing_ones (+_vartime, BitOps)", uint_bit_counts; 1, 2, 3, 4, 5, 6, 16);
    ucases!(v, "bit/bit_vartime every index", uint_bit_test; 1, 2, 3, 4, 5, 6, 16);
    ucases!(v, "BitOps::set_bit/set_bit_vartime every index", uint_set_bit; 1, 2, 3, 4, 5, 16);
    case!(v, "BoxedUint bit queries / bit / set_bit (1..=5 limbs)", boxed_bits);
    case!(v, "Limb::bits/leading_zeros/trailing_zeros/trailing_ones", limb_bits);
    ucases!(v, "& | ^ ! (inherent, checked, wrapping, operators, assign, Wrapping, bitand_limb)", uint_bitwise; 1, 2, 3, 4, 5, 16);
    icases!(v, "& | ^ ! (inherent, checked, wrapping, operators, assign, Wrapping, bitand_limb)", int_bitwise; 1, 2, 3, 4);
    case!(v, "BoxedUint & | ^ ! (equal and mixed precisions)", boxed_bitwise);
    case!(v, "Limb & | ^ !", limb_bitwise);
    v
}
