//! C09 — modular exponentiation, multi-exponentiation and linear combination are exact.
//!
//! Oracle: `BigUint::modpow` on `exponent mod 2^k`, products and sums mod m. Every result is
//! observed through `retrieve()` (the value) and `to_montgomery()` (canonical form: `v * R mod m`).
//! `exponent_bits` stays inside the property's domain `0 <= k <= BITS(exponent)` (a larger k indexes
//! past the exponent's limbs; the documentation calls k "the number of least significant bits to
//! take into account").
//!
//! m = 1 (admissible: `Odd::new(1)`) has cases of its own, as in C08: the canonical residue of
//! `base^0 = 1` modulo 1 is 0.

use super::c08::{ModBig1024, ModLz2, ModLz5, ModM64, ModM127, ModP256, ModSmall192, ModThree, moduli_gt1};
use super::prelude::*;
use crypto_bigint::modular::{BoxedMontyForm, BoxedMontyParams, ConstMontyForm, ConstMontyParams, MontyForm, MontyParams};
use crypto_bigint::{Monty, MultiExponentiate, MultiExponentiateBoundedExp, Pow, PowBoundedExp};

// ---------------------------------------------------------------- the two fixed-width representations

/// `(retrieve, to_montgomery)`
type Obs = (BigUint, BigUint);

fn want(v: &BigUint, m: &BigUint, r: &BigUint) -> Obs {
    (v.clone(), v * r % m)
}

pub trait PowForm: Copy {
    type Ctxp: Copy;
    const LIMBS: usize;
    fn fixed() -> Option<BigUint> {
        None
    }
    fn ctx(m: &BigUint) -> Self::Ctxp;
    fn mk(v: &BigUint, p: &Self::Ctxp) -> Self;
    fn obs(&self) -> Obs;
}

/// inherent `pow` / `pow_bounded_exp` (generic over the exponent width)
pub trait PowInh<const E: usize>: PowForm {
    fn pow_i(&self, e: &Uint<E>) -> Self;
    fn pow_bounded_i(&self, e: &Uint<E>, k: u32) -> Self;
}

impl<const L: usize> PowForm for MontyForm<L> {
    type Ctxp = MontyParams<L>;
    const LIMBS: usize = L;
    fn ctx(m: &BigUint) -> Self::Ctxp {
        MontyParams::<L>::new_vartime(oddu::<L>(m))
    }
    fn mk(v: &BigUint, p: &Self::Ctxp) -> Self {
        MontyForm::<L>::new(&bu::<L>(v), *p)
    }
    fn obs(&self) -> Obs {
        (ub(&self.retrieve()), ub(&self.to_montgomery()))
    }
}
impl<const L: usize, const E: usize> PowInh<E> for MontyForm<L> {
    fn pow_i(&self, e: &Uint<E>) -> Self {
        MontyForm::<L>::pow(self, e)
    }
    fn pow_bounded_i(&self, e: &Uint<E>, k: u32) -> Self {
        MontyForm::<L>::pow_bounded_exp(self, e, k)
    }
}

impl<P: ConstMontyParams<L>, const L: usize> PowForm for ConstMontyForm<P, L> {
    type Ctxp = ();
    const LIMBS: usize = L;
    fn fixed() -> Option<BigUint> {
        Some(ub(P::MODULUS.as_ref()))
    }
    fn ctx(_m: &BigUint) -> Self::Ctxp {}
    fn mk(v: &BigUint, _p: &Self::Ctxp) -> Self {
        Self::new(&bu::<L>(v))
    }
    fn obs(&self) -> Obs {
        (ub(&self.retrieve()), ub(&self.to_montgomery()))
    }
}
impl<P: ConstMontyParams<L>, const L: usize, const E: usize> PowInh<E> for ConstMontyForm<P, L> {
    fn pow_i(&self, e: &Uint<E>) -> Self {
        ConstMontyForm::<P, L>::pow(self, e)
    }
    fn pow_bounded_i(&self, e: &Uint<E>, k: u32) -> Self {
        ConstMontyForm::<P, L>::pow_bounded_exp(self, e, k)
    }
}

// ---------------------------------------------------------------- corpora and budgets

/// Rough cost in microseconds of one crate exponentiation plus its oracle.
fn pow_cost(limbs: usize, exp_bits: u32) -> usize {
    let mul = 3 + 2 * limbs * limbs; // ~ns * 10 of a Montgomery multiplication
    (exp_bits as usize * mul) / 400 + 2
}

/// How many (modulus, base, exponent) combinations a case may try: `(moduli, bases, exponents)`.
fn plan(c: &Ctx, cost_us: usize, per_triple: usize) -> (usize, usize, usize) {
    let budget_us = (c.iters + c.cap / 4) * 150;
    let total = (budget_us / (cost_us * per_triple.max(1))).clamp(8, 6000);
    let nb = if total >= 600 { 8 } else if total >= 60 { 5 } else { 3 };
    let ne = (total / (nb * 6)).clamp(3, 40);
    let nm = (total / (nb * ne)).clamp(2, 24);
    (nm, nb, ne)
}

fn moduli_of<F: PowForm>(c: &mut Ctx, n: usize) -> Vec<BigUint> {
    match F::fixed() {
        Some(m) => vec![m],
        None => spread_moduli(c, F::LIMBS, n),
    }
}

/// `n` odd moduli > 1 of a width: 3, MAX, 2^(BITS-1)+1, MAX/3, MAX/4, a modulus with zero high
/// limbs first; then a random spread of the C08 corpus and top-bit-set random moduli.
fn spread_moduli(c: &mut Ctx, limbs: usize, n: usize) -> Vec<BigUint> {
    let all = moduli_gt1(c, limbs, 40);
    let head = [1usize, 3, 6, 9, 10, 14, 2, 0];
    let mut v: Vec<BigUint> = head.iter().filter(|&&i| i < all.len()).map(|&i| all[i].clone()).collect();
    while v.len() < n {
        let i = c.below(all.len());
        if !v.contains(&all[i]) {
            v.push(all[i].clone());
        } else {
            v.push(c.rnd(limbs) | pow2(64 * limbs as u32 - 1) | BigUint::one());
        }
    }
    v.truncate(n);
    v
}

/// Bases: 0, 1, m-1, 2, m-2, (m+1)/2, random.
fn bases(c: &mut Ctx, m: &BigUint, n: usize) -> Vec<BigUint> {
    let mut v = vec![BigUint::zero(), BigUint::one() % m, m - 1u32, BigUint::from(2u8) % m];
    v.truncate(n);
    while v.len() < n {
        v.push(match v.len() {
            5 => (m - 1u32) - (BigUint::one() % m),
            6 => ((m + 1u32) >> 1) % m,
            _ => c.rnd_below(m),
        });
    }
    v
}

/// Exponents of a width: 0, 1, all-ones, 2^(bits-1), 2, 3, 2^bits - 2, limb and window boundary
/// powers of two, m - 1, random.
fn exponents(c: &mut Ctx, e_limbs: usize, m: &BigUint, n: usize) -> Vec<BigUint> {
    let bits = 64 * e_limbs as u32;
    let max = mask(bits);
    let mut v = vec![BigUint::zero(), BigUint::one(), max.clone(), pow2(bits - 1), BigUint::from(2u8), BigUint::from(3u8), &max - 1u32];
    let js = [63u32, 64, 4, 3, 65, 127, 128, 60, 15, 16];
    for j in js {
        if j < bits {
            v.push(pow2(j));
        }
    }
    v.push((m - 1u32) & &max);
    v.push(BigUint::from(0xfu8));
    v.push(BigUint::from(0x10u8));
    v.push(BigUint::from(0x11u8));
    v.truncate(n.max(4));
    while v.len() < n {
        v.push(match c.below(4) {
            0 => pow2(c.below(bits as usize) as u32),
            1 => mask(1 + c.below(bits as usize) as u32),
            _ => c.rnd(e_limbs),
        });
    }
    v
}

/// Bit bounds for an exponent of `bits` bits: the property's list, the ends, window / limb
/// boundaries and a handful of random ones; everything for `exhaustive`.
fn bit_bounds(c: &mut Ctx, bits: u32, exhaustive: bool, n: usize) -> Vec<u32> {
    if exhaustive {
        return (0..=bits).collect();
    }
    let mut v: Vec<u32> = Vec::new();
    for k in [0u32, 1, 4, 63, 64, 65, 127, 128, bits, bits - 1, 2, 3, 5, 8, 60, 61, 62, 66, 67, 68, 129, 191, 192, 193, 255, 256, 257, 512, 1023] {
        if k <= bits && !v.contains(&k) {
            v.push(k);
        }
    }
    v.truncate(n.max(10));
    for _ in 0..4 {
        v.push(c.below(bits as usize + 1) as u32);
    }
    v
}

fn reduce_exp(e: &BigUint, k: u32) -> BigUint {
    e & mask(k)
}

// ---------------------------------------------------------------- pow / Pow

fn pow_case<F, const E: usize>(c: &mut Ctx)
where
    F: PowInh<E> + Pow<Uint<E>> + PowBoundedExp<Uint<E>>,
{
    let limbs = F::LIMBS;
    let ebits = 64 * E as u32;
    let (nm, nb, ne) = plan(c, pow_cost(limbs, ebits), 3);
    for m in moduli_of::<F>(c, nm) {
        let r = pow2(64 * limbs as u32) % &m;
        let Ok(p) = call(|| F::ctx(&m)) else { continue };
        for b in bases(c, &m, nb) {
            let x = F::mk(&b, &p);
            for e in exponents(c, E, &m, ne) {
                if c.done() {
                    return;
                }
                let ex = bu::<E>(&e);
                let exp = want(&b.modpow(&e, &m), &m, &r);
                check!(c, call(|| x.pow_i(&ex).obs()), exp.clone(); m, b, e);
                check!(c, call(|| Pow::pow(&x, &ex).obs()), exp.clone(); m, b, e);
                check!(c, call(|| x.pow_bounded_i(&ex, ebits).obs()), exp; m, b, e);
            }
        }
    }
}

// ---------------------------------------------------------------- pow_bounded_exp / PowBoundedExp

fn pow_bounded_case<F, const E: usize>(c: &mut Ctx)
where
    F: PowInh<E> + PowBoundedExp<Uint<E>>,
{
    let limbs = F::LIMBS;
    let ebits = 64 * E as u32;
    let exhaustive = E <= 2 && limbs <= 4;
    let nk = if exhaustive { ebits as usize + 1 } else { 28 };
    // the average bounded exponentiation costs half of a full one
    let (nm, nb, ne) = plan(c, pow_cost(limbs, ebits / 2 + 8), 2 * nk);
    for m in moduli_of::<F>(c, nm) {
        let r = pow2(64 * limbs as u32) % &m;
        let Ok(p) = call(|| F::ctx(&m)) else { continue };
        for b in bases(c, &m, nb) {
            let x = F::mk(&b, &p);
            for e in exponents(c, E, &m, ne) {
                let ex = bu::<E>(&e);
                for k in bit_bounds(c, ebits, exhaustive, nk - 4) {
                    if c.done() {
                        return;
                    }
                    let exp = want(&b.modpow(&reduce_exp(&e, k), &m), &m, &r);
                    check!(c, call(|| x.pow_bounded_i(&ex, k).obs()), exp.clone(); m, b, e, k);
                    check!(c, call(|| PowBoundedExp::pow_bounded_exp(&x, &ex, k).obs()), exp; m, b, e, k);
                }
            }
        }
    }
}

/// m = 1: every power is the residue 0, stored as 0.
fn pow_m1<const L: usize>(c: &mut Ctx) {
    let m = BigUint::one();
    let r = BigUint::zero();
    let p = MontyParams::<L>::new_vartime(oddu::<L>(&m));
    for b in [0u32, 1, 5] {
        let b = BigUint::from(b);
        let x = MontyForm::<L>::new(&bu::<L>(&b), p);
        for e in [0u32, 1, 2, 0x35] {
            let e = BigUint::from(e);
            let ex = bu::<1>(&e);
            for k in [0u32, 1, 4, 5, 64] {
                let exp = want(&BigUint::zero(), &m, &r);
                check!(c, call(|| x.pow_bounded_exp(&ex, k).obs()), exp; m, b, e, k);
            }
        }
    }
}

fn boxed_pow_m1(c: &mut Ctx) {
    let m = BigUint::one();
    for limbs in 1..=2usize {
        let p = BoxedMontyParams::new(oddx(&m, limbs));
        for b in [0u32, 5] {
            let b = BigUint::from(b);
            let x = BoxedMontyForm::new(bx(&b, limbs), p.clone());
            for (e, k) in [(0u32, 0u32), (1, 1), (5, 4), (5, 64)] {
                let e = BigUint::from(e);
                let ex = bx(&e, 1);
                let exp = (BigUint::zero(), BigUint::zero());
                check!(c, call(|| { let y = x.pow_bounded_exp(&ex, k); (xb(&y.retrieve()), xb(&y.to_montgomery())) }), exp; m, limbs, b, e, k);
            }
        }
    }
}

// ---------------------------------------------------------------- boxed pow

fn boxed_obs(x: &BoxedMontyForm) -> (BigUint, BigUint, usize) {
    let r = x.retrieve();
    (xb(&r), xb(&x.to_montgomery()), r.nlimbs())
}

/// `BoxedMontyForm::pow` / `pow_bounded_exp` / `PowBoundedExp`, modulus of 1..=4 limbs, exponent of
/// 1..=4 limbs (any precision is allowed for the exponent).
fn boxed_pow(c: &mut Ctx) {
    for limbs in 1..=4usize {
        for elimbs in 1..=4usize {
            let ebits = 64 * elimbs as u32;
            let (nm, nb, ne) = c.scaled(16, |c| plan(c, pow_cost(limbs, ebits) * 2, 9));
            for m in spread_moduli(c, limbs, nm) {
                let r = pow2(64 * limbs as u32) % &m;
                let Ok(p) = call(|| BoxedMontyParams::new(oddx(&m, limbs))) else { continue };
                for b in bases(c, &m, nb) {
                    let x = BoxedMontyForm::new(bx(&b, limbs), p.clone());
                    for e in exponents(c, elimbs, &m, ne) {
                        if c.done() {
                            return;
                        }
                        let ex = bx(&e, elimbs);
                        let v = b.modpow(&e, &m);
                        let exp = (v.clone(), &v * &r % &m, limbs);
                        check!(c, call(|| boxed_obs(&x.pow(&ex))), exp.clone(); m, limbs, b, e, elimbs);
                        check!(c, call(|| boxed_obs(&x.pow_bounded_exp(&ex, ebits))), exp; m, limbs, b, e, elimbs);
                        for k in bit_bounds(c, ebits, false, 3) {
                            let v = b.modpow(&reduce_exp(&e, k), &m);
                            let exp = (v.clone(), &v * &r % &m, limbs);
                            if c.below(2) == 0 {
                                check!(c, call(|| boxed_obs(&x.pow_bounded_exp(&ex, k))), exp; m, limbs, b, e, elimbs, k);
                            } else {
                                check!(c, call(|| boxed_obs(&PowBoundedExp::pow_bounded_exp(&x, &ex, k))), exp; m, limbs, b, e, elimbs, k);
                            }
                        }
                    }
                }
            }
        }
    }
}

/// wider precisions (the quantifier names 1..=17 limbs) on a small budget
fn boxed_pow_wide(c: &mut Ctx) {
    for limbs in [5usize, 8, 17] {
        for elimbs in [1usize, limbs] {
            let ebits = 64 * elimbs as u32;
            let (nm, nb, ne) = c.scaled(8, |c| plan(c, pow_cost(limbs, ebits) * 2, 5));
            for m in spread_moduli(c, limbs, nm) {
                let r = pow2(64 * limbs as u32) % &m;
                let Ok(p) = call(|| BoxedMontyParams::new(oddx(&m, limbs))) else { continue };
                for b in bases(c, &m, nb) {
                    let x = BoxedMontyForm::new(bx(&b, limbs), p.clone());
                    for e in exponents(c, elimbs, &m, ne) {
                        if c.done() {
                            return;
                        }
                        let ex = bx(&e, elimbs);
                        let v = b.modpow(&e, &m);
                        check!(c, call(|| boxed_obs(&x.pow(&ex))), (v.clone(), &v * &r % &m, limbs); m, limbs, b, e, elimbs);
                        for k in bit_bounds(c, ebits, false, 0).into_iter().rev().take(4) {
                            let v = b.modpow(&reduce_exp(&e, k), &m);
                            check!(c, call(|| boxed_obs(&x.pow_bounded_exp(&ex, k))), (v.clone(), &v * &r % &m, limbs); m, limbs, b, e, elimbs, k);
                        }
                    }
                }
            }
        }
    }
}

/// every k for one- and two-limb exponents
fn boxed_pow_bounded_exhaustive(c: &mut Ctx) {
    for limbs in 1..=4usize {
        for elimbs in 1..=2usize {
            let ebits = 64 * elimbs as u32;
            let (nm, nb, ne) = c.scaled(8, |c| plan(c, pow_cost(limbs, ebits / 2 + 8) * 2, ebits as usize + 1));
            for m in spread_moduli(c, limbs, nm) {
                let r = pow2(64 * limbs as u32) % &m;
                let Ok(p) = call(|| BoxedMontyParams::new_vartime(oddx(&m, limbs))) else { continue };
                for b in bases(c, &m, nb) {
                    let x = BoxedMontyForm::new(bx(&b, limbs), p.clone());
                    for e in exponents(c, elimbs, &m, ne) {
                        let ex = bx(&e, elimbs);
                        for k in 0..=ebits {
                            if c.done() {
                                return;
                            }
                            let v = b.modpow(&reduce_exp(&e, k), &m);
                            let exp = (v.clone(), &v * &r % &m, limbs);
                            check!(c, call(|| boxed_obs(&x.pow_bounded_exp(&ex, k))), exp; m, limbs, b, e, elimbs, k);
                        }
                    }
                }
            }
        }
    }
}

// ---------------------------------------------------------------- multi-exponentiation

/// Arrays `[(base, exponent); N]` and slices of the same length, full and bounded.
fn multi_exp_n<F, const E: usize, const N: usize>(c: &mut Ctx, rounds: usize)
where
    F: PowForm
        + Pow<Uint<E>>
        + MultiExponentiate<Uint<E>, [(F, Uint<E>); N]>
        + MultiExponentiateBoundedExp<Uint<E>, [(F, Uint<E>); N]>
        + MultiExponentiate<Uint<E>, [(F, Uint<E>)]>
        + MultiExponentiateBoundedExp<Uint<E>, [(F, Uint<E>)]>,
{
    let limbs = F::LIMBS;
    let ebits = 64 * E as u32;
    let terms = N;
    let ms = moduli_of::<F>(c, rounds.clamp(2, 12));
    for round in 0..rounds {
        if c.done() {
            return;
        }
        let m = ms[round % ms.len()].clone();
        let r = pow2(64 * limbs as u32) % &m;
        let Ok(p) = call(|| F::ctx(&m)) else { continue };
        let bs_pool = bases(c, &m, 8);
        let es_pool = exponents(c, E, &m, 24);
        // round 0..: first all-special, then mixed
        let bs: Vec<BigUint> = (0..N).map(|i| if round < 8 { bs_pool[(round + i) % bs_pool.len()].clone() } else { c.rnd_below(&m) }).collect();
        let es: Vec<BigUint> = (0..N).map(|i| if round % 2 == 0 { es_pool[(round / 2 + 3 * i) % es_pool.len()].clone() } else { c.rnd(E) }).collect();
        let zero = (F::mk(&BigUint::zero(), &p), Uint::<E>::ZERO);
        let mut arr = [zero; N];
        for i in 0..N {
            arr[i] = (F::mk(&bs[i], &p), bu::<E>(&es[i]));
        }
        let slice: &[(F, Uint<E>)] = &arr[..];
        let product = |k: u32| {
            let mut acc = BigUint::one() % &m;
            for i in 0..N {
                acc = acc * bs[i].modpow(&reduce_exp(&es[i], k), &m) % &m;
            }
            acc
        };
        let full = want(&product(ebits), &m, &r);
        check!(c, call(|| <F as MultiExponentiate<Uint<E>, [(F, Uint<E>); N]>>::multi_exponentiate(&arr).obs()), full.clone(); m, bs, es, terms);
        check!(c, call(|| <F as MultiExponentiate<Uint<E>, [(F, Uint<E>)]>>::multi_exponentiate(slice).obs()), full; m, bs, es, terms);
        for k in bit_bounds(c, ebits, false, 0).into_iter().take(if round % 4 == 0 { 14 } else { 4 }) {
            let exp = want(&product(k), &m, &r);
            check!(c, call(|| <F as MultiExponentiateBoundedExp<Uint<E>, [(F, Uint<E>); N]>>::multi_exponentiate_bounded_exp(&arr, k).obs()), exp.clone(); m, bs, es, terms, k);
            check!(c, call(|| <F as MultiExponentiateBoundedExp<Uint<E>, [(F, Uint<E>)]>>::multi_exponentiate_bounded_exp(slice, k).obs()), exp; m, bs, es, terms, k);
        }
    }
}

macro_rules! multi_exp_case {
    ($name:ident, $F:ty, $l:expr) => {
        fn $name<const E: usize>(c: &mut Ctx) {
            let cost = pow_cost($l, 64 * E as u32) * 14;
            let rounds = (((c.iters + c.cap / 4) * 40) / cost).clamp(4, 160);
            multi_exp_n::<$F, E, 1>(c, rounds);
            multi_exp_n::<$F, E, 2>(c, rounds);
            multi_exp_n::<$F, E, 3>(c, rounds / 2 + 2);
            multi_exp_n::<$F, E, 5>(c, rounds / 3 + 2);
        }
    };
}
multi_exp_case!(multi_exp_1, MontyForm<1>, 1);
multi_exp_case!(multi_exp_2, MontyForm<2>, 2);
multi_exp_case!(multi_exp_4, MontyForm<4>, 4);
multi_exp_case!(multi_exp_16, MontyForm<16>, 16);
multi_exp_case!(multi_exp_p256, ConstMontyForm<ModP256, 4>, 4);
multi_exp_case!(multi_exp_m64, ConstMontyForm<ModM64, 1>, 1);
multi_exp_case!(multi_exp_m127, ConstMontyForm<ModM127, 2>, 2);
multi_exp_case!(multi_exp_small192, ConstMontyForm<ModSmall192, 3>, 3);

// ---------------------------------------------------------------- linear combinations

/// Moduli with a chosen number of leading zero bits: the accumulation window holds
/// `2^min(leading zeros, 63)` products, so 0..=5 leading zeros give windows of 1..=32 < 40 terms.
fn lincomb_moduli(c: &mut Ctx, limbs: usize) -> Vec<BigUint> {
    let bits = 64 * limbs as u32;
    let mut v = Vec::new();
    for lz in [0u32, 1, 2, 3, 4, 5, 6, 7, 62, 63, 64, 65, 127, 128, 200] {
        if lz + 2 > bits {
            continue;
        }
        v.push(mask(bits - lz)); // largest
        v.push(pow2(bits - lz - 1) + 1u32); // smallest
        v.push((c.rnd(limbs) >> lz as usize) | pow2(bits - lz - 1) | BigUint::one());
    }
    v.push(BigUint::from(3u8));
    v.push(mask(bits) / 3u32 | BigUint::one());
    v.retain(|m| m > &BigUint::one());
    v
}

/// Term lists: all (m-1, m-1) (largest accumulator), random, sparse specials.
fn lincomb_terms(c: &mut Ctx, m: &BigUint, n: usize, pattern: usize) -> Vec<(BigUint, BigUint)> {
    (0..n)
        .map(|i| match pattern {
            0 => (m - 1u32, m - 1u32),
            1 => (c.rnd_below(m), c.rnd_below(m)),
            2 => {
                if i % 2 == 0 { (m - 1u32, m - 1u32) } else { (m - 1u32, BigUint::one() % m) }
            }
            _ => {
                let pool = [BigUint::zero(), BigUint::one() % m, m - 1u32, m >> 1, ((m + 1u32) >> 1) % m];
                (pool[c.below(5)].clone(), if c.coin() { c.rnd_below(m) } else { pool[c.below(5)].clone() })
            }
        })
        .collect()
}

fn sum_of_products(ts: &[(BigUint, BigUint)], m: &BigUint) -> BigUint {
    let mut acc = BigUint::zero();
    for (a, b) in ts {
        acc += a * b;
    }
    acc % m
}

/// which term counts a run covers: all of 1..=40 at the default budget
fn term_counts(c: &mut Ctx, wide: bool) -> Vec<usize> {
    if c.iters >= 1000 && !wide {
        (1..=40).collect()
    } else {
        let mut v = vec![1usize, 2, 3, 4, 5, 8, 9, 16, 17, 32, 33, 40];
        for _ in 0..4 {
            v.push(1 + c.below(40));
        }
        v
    }
}

fn lincomb_runtime<const L: usize>(c: &mut Ctx) {
    let limbs = L;
    let counts = term_counts(c, L > 4);
    for m in lincomb_moduli(c, L) {
        let r = pow2(64 * L as u32) % &m;
        let Ok(p) = call(|| MontyParams::<L>::new_vartime(oddu::<L>(&m))) else { continue };
        for &n in &counts {
            for pattern in 0..4 {
                if c.done() {
                    return;
                }
                let ts = lincomb_terms(c, &m, n, pattern);
                let forms: Vec<(MontyForm<L>, MontyForm<L>)> = ts.iter().map(|(a, b)| (MontyForm::new(&bu::<L>(a), p), MontyForm::new(&bu::<L>(b), p))).collect();
                let refs: Vec<(&MontyForm<L>, &MontyForm<L>)> = forms.iter().map(|(a, b)| (a, b)).collect();
                let exp = want(&sum_of_products(&ts, &m), &m, &r);
                check!(c, call(|| MontyForm::<L>::lincomb_vartime(&refs).obs()), exp.clone(); m, limbs, n, ts);
                check!(c, call(|| <MontyForm<L> as Monty>::lincomb_vartime(&refs).obs()), exp; m, limbs, n, ts);
            }
        }
        // documented: panics if `products` is empty
        let empty: Vec<(&MontyForm<L>, &MontyForm<L>)> = Vec::new();
        must_panic!(c, call(|| MontyForm::<L>::lincomb_vartime(&empty).obs()); m, limbs);
        must_panic!(c, call(|| <MontyForm<L> as Monty>::lincomb_vartime(&empty).obs()); m, limbs);
    }
}

fn lincomb_boxed(c: &mut Ctx) {
    lincomb_boxed_on(c, &[1, 2, 3, 4]);
}

fn lincomb_boxed_wide(c: &mut Ctx) {
    c.scaled(8, |c| lincomb_boxed_on(c, &[5, 8, 17]));
}

fn lincomb_boxed_on(c: &mut Ctx, widths: &[usize]) {
    for &limbs in widths {
        let counts = if limbs > 4 { vec![1usize, 2, 5, 33, 40] } else { term_counts(c, false) };
        let mut ms = lincomb_moduli(c, limbs);
        if limbs > 4 {
            // the all-ones moduli of every leading-zero class only
            ms = ms.into_iter().step_by(3).collect();
        }
        for m in ms {
            let r = pow2(64 * limbs as u32) % &m;
            let Ok(p) = call(|| BoxedMontyParams::new(oddx(&m, limbs))) else { continue };
            for &n in &counts {
                for pattern in 0..4 {
                    if c.done() {
                        return;
                    }
                    let ts = lincomb_terms(c, &m, n, pattern);
                    let forms: Vec<(BoxedMontyForm, BoxedMontyForm)> =
                        ts.iter().map(|(a, b)| (BoxedMontyForm::new(bx(a, limbs), p.clone()), BoxedMontyForm::new(bx(b, limbs), p.clone()))).collect();
                    let refs: Vec<(&BoxedMontyForm, &BoxedMontyForm)> = forms.iter().map(|(a, b)| (a, b)).collect();
                    let v = sum_of_products(&ts, &m);
                    let exp = (v.clone(), &v * &r % &m, limbs);
                    check!(c, call(|| boxed_obs(&BoxedMontyForm::lincomb_vartime(&refs))), exp.clone(); m, limbs, n, ts);
                    check!(c, call(|| boxed_obs(&<BoxedMontyForm as Monty>::lincomb_vartime(&refs))), exp; m, limbs, n, ts);
                }
            }
            let empty: Vec<(&BoxedMontyForm, &BoxedMontyForm)> = Vec::new();
            must_panic!(c, call(|| boxed_obs(&BoxedMontyForm::lincomb_vartime(&empty))); m, limbs);
            must_panic!(c, call(|| boxed_obs(&<BoxedMontyForm as Monty>::lincomb_vartime(&empty))); m, limbs);
        }
    }
}

// ---------------------------------------------------------------- the three implementations on identical inputs

/// For a compile-time modulus: pow, pow_bounded_exp and lincomb_vartime computed by the
/// compile-time form, by the runtime form obtained through `From<&ConstMontyForm>`, and by the boxed
/// form over `BoxedMontyParams::from_const_params`, each against the oracle (hence equal).
fn three_routes<P: ConstMontyParams<L>, const L: usize>(c: &mut Ctx) {
    let limbs = L;
    let m = ub(P::MODULUS.as_ref());
    let r = pow2(64 * L as u32) % &m;
    let Ok(bp) = call(BoxedMontyParams::from_const_params::<L, P>) else {
        let got: Result<(), String> = Err("BoxedMontyParams::from_const_params panicked".into());
        no_panic!(c, got; m);
        return;
    };
    let boxed = |x: &ConstMontyForm<P, L>| BoxedMontyForm::from_montgomery(BoxedUint::from(x.to_montgomery()), bp.clone());
    // exponentiation
    let (_, nb, ne) = plan(c, pow_cost(L, 64 * L as u32) * 3, 4);
    for b in bases(c, &m, nb + 2) {
        let x = ConstMontyForm::<P, L>::new(&bu::<L>(&b));
        let xd = MontyForm::<L>::from(&x);
        let xb_ = boxed(&x);
        for e in exponents(c, L, &m, ne + 4) {
            if c.done() {
                return;
            }
            let ex = bu::<L>(&e);
            let exb = bx(&e, L);
            let v = b.modpow(&e, &m);
            let exp = want(&v, &m, &r);
            check!(c, call(|| x.pow(&ex).obs()), exp.clone(); m, b, e);
            check!(c, call(|| xd.pow(&ex).obs()), exp.clone(); m, b, e);
            check!(c, call(|| boxed_obs(&xb_.pow(&exb))), (exp.0.clone(), exp.1.clone(), limbs); m, b, e);
            let k = c.below(64 * L + 1) as u32;
            let v = b.modpow(&reduce_exp(&e, k), &m);
            let exp = want(&v, &m, &r);
            check!(c, call(|| x.pow_bounded_exp(&ex, k).obs()), exp.clone(); m, b, e, k);
            check!(c, call(|| xd.pow_bounded_exp(&ex, k).obs()), exp.clone(); m, b, e, k);
            check!(c, call(|| boxed_obs(&xb_.pow_bounded_exp(&exb, k))), (exp.0.clone(), exp.1.clone(), limbs); m, b, e, k);
        }
    }
    // linear combination
    for n in term_counts(c, L > 4) {
        for pattern in 0..4 {
            if c.done() {
                return;
            }
            let ts = lincomb_terms(c, &m, n, pattern);
            let cf: Vec<(ConstMontyForm<P, L>, ConstMontyForm<P, L>)> =
                ts.iter().map(|(a, b)| (ConstMontyForm::new(&bu::<L>(a)), ConstMontyForm::new(&bu::<L>(b)))).collect();
            let df: Vec<(MontyForm<L>, MontyForm<L>)> = cf.iter().map(|(a, b)| (MontyForm::from(a), MontyForm::from(b))).collect();
            let dr: Vec<(&MontyForm<L>, &MontyForm<L>)> = df.iter().map(|(a, b)| (a, b)).collect();
            let bf: Vec<(BoxedMontyForm, BoxedMontyForm)> = cf.iter().map(|(a, b)| (boxed(a), boxed(b))).collect();
            let br: Vec<(&BoxedMontyForm, &BoxedMontyForm)> = bf.iter().map(|(a, b)| (a, b)).collect();
            let v = sum_of_products(&ts, &m);
            let exp = want(&v, &m, &r);
            check!(c, call(|| ConstMontyForm::<P, L>::lincomb_vartime(&cf).obs()), exp.clone(); m, n, ts);
            check!(c, call(|| MontyForm::<L>::lincomb_vartime(&dr).obs()), exp.clone(); m, n, ts);
            check!(c, call(|| boxed_obs(&BoxedMontyForm::lincomb_vartime(&br))), (exp.0, exp.1, limbs); m, n, ts);
        }
    }
}

// ---------------------------------------------------------------- table

macro_rules! pcase {
    ($v:ident, $tname:expr, $what:expr, $f:ident, $F:ty, $e:literal) => {
        $v.push(Case::new(format!("{}::{} (exponent U{})", $tname, $what, 64 * $e), $f::<$F, $e>));
    };
}

macro_rules! runtime_pow_cases {
    ($v:ident; $(($l:literal, $e:literal)),+) => {$(
        pcase!($v, format!("MontyForm<{}>", $l), "pow/Pow::pow", pow_case, MontyForm<$l>, $e);
        pcase!($v, format!("MontyForm<{}>", $l), "pow_bounded_exp/PowBoundedExp", pow_bounded_case, MontyForm<$l>, $e);
    )+};
}

macro_rules! const_pow_cases {
    ($v:ident; $(($name:ident, $l:literal, $e:literal)),+) => {$(
        pcase!($v, format!("ConstMontyForm<{}, {}>", stringify!($name), $l), "pow/Pow::pow", pow_case, ConstMontyForm<$name, $l>, $e);
        pcase!($v, format!("ConstMontyForm<{}, {}>", stringify!($name), $l), "pow_bounded_exp/PowBoundedExp", pow_bounded_case, ConstMontyForm<$name, $l>, $e);
    )+};
}

pub fn cases() -> Vec<Case> {
    let mut v = Vec::new();
    // (modulus limbs, exponent limbs): same width, narrower and wider exponents
    runtime_pow_cases!(v; (1, 1), (2, 2), (4, 4), (1, 2), (2, 1), (1, 4), (4, 1), (4, 2), (2, 4), (4, 8), (8, 8), (8, 1), (16, 16), (16, 1), (16, 4), (1, 16));
    const_pow_cases!(v; (ModP256, 4, 4), (ModP256, 4, 1), (ModM64, 1, 1), (ModM64, 1, 2), (ModThree, 1, 1), (ModM127, 2, 2), (ModLz2, 2, 1), (ModLz5, 4, 4), (ModSmall192, 3, 3), (ModSmall192, 3, 1), (ModBig1024, 16, 16), (ModBig1024, 16, 1));
    case!(v, "BoxedMontyForm::pow/pow_bounded_exp/PowBoundedExp (1..=4 limb moduli x 1..=4 limb exponents)", boxed_pow);
    case!(v, "BoxedMontyForm::pow_bounded_exp every k (1..=2 limb exponents)", boxed_pow_bounded_exhaustive);
    case!(v, "BoxedMontyForm::pow/pow_bounded_exp (5, 8, 17 limb moduli)", boxed_pow_wide);
    case!(v, "MontyForm<1>::MultiExponentiate(BoundedExp) arrays+slices 1,2,3,5 terms (exponent U64)", multi_exp_1::<1>);
    case!(v, "MontyForm<1>::MultiExponentiate(BoundedExp) arrays+slices 1,2,3,5 terms (exponent U128)", multi_exp_1::<2>);
    case!(v, "MontyForm<2>::MultiExponentiate(BoundedExp) arrays+slices 1,2,3,5 terms (exponent U128)", multi_exp_2::<2>);
    case!(v, "MontyForm<2>::MultiExponentiate(BoundedExp) arrays+slices 1,2,3,5 terms (exponent U64)", multi_exp_2::<1>);
    case!(v, "MontyForm<4>::MultiExponentiate(BoundedExp) arrays+slices 1,2,3,5 terms (exponent U256)", multi_exp_4::<4>);
    case!(v, "MontyForm<4>::MultiExponentiate(BoundedExp) arrays+slices 1,2,3,5 terms (exponent U128)", multi_exp_4::<2>);
    case!(v, "MontyForm<16>::MultiExponentiate(BoundedExp) arrays+slices 1,2,3,5 terms (exponent U1024)", multi_exp_16::<16>);
    case!(v, "MontyForm<16>::MultiExponentiate(BoundedExp) arrays+slices 1,2,3,5 terms (exponent U64)", multi_exp_16::<1>);
    case!(v, "ConstMontyForm<ModP256, 4>::MultiExponentiate(BoundedExp) arrays+slices 1,2,3,5 terms (exponent U256)", multi_exp_p256::<4>);
    case!(v, "ConstMontyForm<ModM64, 1>::MultiExponentiate(BoundedExp) arrays+slices 1,2,3,5 terms (exponent U64)", multi_exp_m64::<1>);
    case!(v, "ConstMontyForm<ModM127, 2>::MultiExponentiate(BoundedExp) arrays+slices 1,2,3,5 terms (exponent U192)", multi_exp_m127::<3>);
    case!(v, "ConstMontyForm<ModSmall192, 3>::MultiExponentiate(BoundedExp) arrays+slices 1,2,3,5 terms (exponent U64)", multi_exp_small192::<1>);
    case!(v, "MontyForm<1>::lincomb_vartime/Monty::lincomb_vartime 1..=40 terms", lincomb_runtime::<1>);
    case!(v, "MontyForm<2>::lincomb_vartime/Monty::lincomb_vartime 1..=40 terms", lincomb_runtime::<2>);
    case!(v, "MontyForm<3>::lincomb_vartime/Monty::lincomb_vartime 1..=40 terms", lincomb_runtime::<3>);
    case!(v, "MontyForm<4>::lincomb_vartime/Monty::lincomb_vartime 1..=40 terms", lincomb_runtime::<4>);
    case!(v, "MontyForm<8>::lincomb_vartime/Monty::lincomb_vartime 1..=40 terms", lincomb_runtime::<8>);
    case!(v, "MontyForm<16>::lincomb_vartime/Monty::lincomb_vartime 1..=40 terms", lincomb_runtime::<16>);
    case!(v, "BoxedMontyForm::lincomb_vartime/Monty::lincomb_vartime 1..=40 terms (1..=4 limbs)", lincomb_boxed);
    case!(v, "BoxedMontyForm::lincomb_vartime/Monty::lincomb_vartime (5, 8, 17 limbs)", lincomb_boxed_wide);
    case!(v, "const/runtime/boxed on identical inputs: pow, pow_bounded_exp, lincomb_vartime (ModP256)", three_routes::<ModP256, 4>);
    case!(v, "const/runtime/boxed on identical inputs: pow, pow_bounded_exp, lincomb_vartime (ModM64)", three_routes::<ModM64, 1>);
    case!(v, "const/runtime/boxed on identical inputs: pow, pow_bounded_exp, lincomb_vartime (ModThree)", three_routes::<ModThree, 1>);
    case!(v, "const/runtime/boxed on identical inputs: pow, pow_bounded_exp, lincomb_vartime (ModM127)", three_routes::<ModM127, 2>);
    case!(v, "const/runtime/boxed on identical inputs: pow, pow_bounded_exp, lincomb_vartime (ModLz2)", three_routes::<ModLz2, 2>);
    case!(v, "const/runtime/boxed on identical inputs: pow, pow_bounded_exp, lincomb_vartime (ModLz5)", three_routes::<ModLz5, 4>);
    case!(v, "const/runtime/boxed on identical inputs: pow, pow_bounded_exp, lincomb_vartime (ModSmall192)", three_routes::<ModSmall192, 3>);
    case!(v, "const/runtime/boxed on identical inputs: pow, pow_bounded_exp, lincomb_vartime (ModBig1024)", three_routes::<ModBig1024, 16>);
    case!(v, "MontyForm<1> m = 1: pow_bounded_exp", pow_m1::<1>);
    case!(v, "MontyForm<2> m = 1: pow_bounded_exp", pow_m1::<2>);
    case!(v, "MontyForm<4> m = 1: pow_bounded_exp", pow_m1::<4>);
    case!(v, "BoxedMontyForm m = 1: pow_bounded_exp", boxed_pow_m1);
    v
}
