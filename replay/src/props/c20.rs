//! C20 — integer square root is the exact floor for every input.
//!
//! Oracle: `isqrt` (BigUint::sqrt) = the unique s with s^2 <= x < (s+1)^2. The checked forms are
//! some exactly when s^2 == x, and then carry s.

use super::prelude::*;
use crypto_bigint::SquareRoot;

/// Square-root corpus of a width: 0, 1, 2, 3, MAX, the neighbourhood of 2^(BITS-1), and for
/// t = 2^j, 2^j +- 1 (every j up to BITS/2; this contains t = 2^(BITS/2) - 1) and random t the
/// values t^2 - 1, t^2, t^2 + 1, t^2 + t (middle of the interval), t^2 + 2t (= (t+1)^2 - 1);
/// then the generic edge corpus and random values.
pub fn sqrt_inputs(c: &mut Ctx, limbs: usize) -> Vec<BigUint> {
    let bits = 64 * limbs as u32;
    let max = mask(bits);
    let tmax = mask(bits / 2);
    let mut v: Vec<BigUint> = Vec::new();
    for s in 0u32..=8 {
        v.push(BigUint::from(s));
        v.push(&max - s);
        v.push(pow2(bits - 1) + s);
        v.push(pow2(bits - 1) - s);
        v.push(pow2(bits - 2) + s);
        v.push(pow2(bits - 2) - s);
    }
    let mut ts: Vec<BigUint> = Vec::new();
    for j in 0..=bits / 2 {
        ts.push(pow2(j) - 1u32);
        ts.push(pow2(j));
        ts.push(pow2(j) + 1u32);
        // 2^j + 2^i: roots with two bits set
        if j >= 2 {
            ts.push(pow2(j) + pow2(c.below(j as usize) as u32));
        }
    }
    for i in 0..c.iters / 2 {
        let t = match i % 4 {
            // random bit length
            0 => c.rnd(limbs) >> (bits - 1 - c.below(bits as usize / 2) as u32),
            // full-size roots
            1 => &tmax - (c.rnd(limbs) >> (bits / 2 + 1 + c.below(bits as usize / 2 - 1) as u32)),
            _ => c.rnd(limbs) >> (bits / 2),
        };
        ts.push(t);
    }
    for t in ts {
        if t > tmax {
            continue;
        }
        let sq = &t * &t;
        if !sq.is_zero() {
            v.push(&sq - 1u32);
        }
        v.push(&sq + 1u32);
        v.push(&sq + &t);
        v.push(&sq + &t + &t);
        if &sq + &t + &t < max {
            v.push(&sq + &t + &t + 1u32);
        }
        v.push(sq);
    }
    v.extend(c.inputs1(limbs));
    v.retain(|x| *x <= max);
    v
}

fn checked_exp(x: &BigUint) -> Option<BigUint> {
    let s = isqrt(x);
    if &s * &s == *x { Some(s) } else { None }
}

/// inputs of wide types: the ct root costs LOG2_BITS + 2 full divisions
fn budget(limbs: usize) -> usize {
    match limbs {
        0..=4 => 1,
        5..=16 => 8,
        _ => 32,
    }
}

// ---------------------------------------------------------------- Uint

fn sqrt_ct<const L: usize>(c: &mut Ctx) {
    for (i, x) in c.scaled(budget(L), |c| sqrt_inputs(c, L)).into_iter().enumerate() {
        if c.done() {
            return;
        }
        let u = bu::<L>(&x);
        let s = isqrt(&x);
        check!(c, call(|| u.sqrt()).map(|r| ub(&r)), s.clone(); x);
        check!(c, call(|| opt(u.checked_sqrt())).map(|r| r.map(|r| ub(&r))), checked_exp(&x); x);
        // the aliases route to the same code: a sample is enough for the wide types
        if L <= 4 || i % 8 == 0 {
            check!(c, call(|| u.wrapping_sqrt()).map(|r| ub(&r)), s.clone(); x);
            check!(c, call(|| SquareRoot::sqrt(&u)).map(|r| ub(&r)), s; x);
        }
    }
}

fn sqrt_vartime<const L: usize>(c: &mut Ctx) {
    for x in c.scaled(budget(L).min(4), |c| sqrt_inputs(c, L)) {
        if c.done() {
            return;
        }
        let u = bu::<L>(&x);
        let s = isqrt(&x);
        check!(c, call(|| u.sqrt_vartime()).map(|r| ub(&r)), s.clone(); x);
        check!(c, call(|| opt(u.checked_sqrt_vartime())).map(|r| r.map(|r| ub(&r))), checked_exp(&x); x);
        check!(c, call(|| u.wrapping_sqrt_vartime()).map(|r| ub(&r)), s.clone(); x);
        check!(c, call(|| SquareRoot::sqrt_vartime(&u)).map(|r| ub(&r)), s; x);
    }
}

// ---------------------------------------------------------------- BoxedUint

fn boxed_ct_one(c: &mut Ctx, nl: usize, div: usize) {
    for (i, x) in c.scaled(div, |c| sqrt_inputs(c, nl)).into_iter().enumerate() {
        if c.done() {
            return;
        }
        let u = bx(&x, nl);
        let s = isqrt(&x);
        check!(c, call(|| u.sqrt()).map(|r| xb(&r)), s.clone(); x, nl);
        check!(c, call(|| opt(u.checked_sqrt())).map(|r| r.map(|r| xb(&r))), checked_exp(&x); x, nl);
        if nl <= 4 || i % 8 == 0 {
            check!(c, call(|| u.wrapping_sqrt()).map(|r| xb(&r)), s.clone(); x, nl);
            check!(c, call(|| SquareRoot::sqrt(&u)).map(|r| xb(&r)), s; x, nl);
        }
    }
}

fn boxed_vt_one(c: &mut Ctx, nl: usize, div: usize) {
    for x in c.scaled(div, |c| sqrt_inputs(c, nl)) {
        if c.done() {
            return;
        }
        let u = bx(&x, nl);
        let s = isqrt(&x);
        check!(c, call(|| u.sqrt_vartime()).map(|r| xb(&r)), s.clone(); x, nl);
        check!(c, call(|| opt(u.checked_sqrt_vartime())).map(|r| r.map(|r| xb(&r))), checked_exp(&x); x, nl);
        check!(c, call(|| u.wrapping_sqrt_vartime()).map(|r| xb(&r)), s.clone(); x, nl);
        check!(c, call(|| SquareRoot::sqrt_vartime(&u)).map(|r| xb(&r)), s; x, nl);
    }
}

fn boxed_ct(c: &mut Ctx) {
    for nl in 1..=4 {
        boxed_ct_one(c, nl, 4);
    }
}

fn boxed_vt(c: &mut Ctx) {
    for nl in 1..=4 {
        boxed_vt_one(c, nl, 4);
    }
}

fn boxed_ct_wide(c: &mut Ctx) {
    boxed_ct_one(c, 5, 8);
    boxed_ct_one(c, 20, 64);
}

fn boxed_vt_wide(c: &mut Ctx) {
    boxed_vt_one(c, 5, 8);
    boxed_vt_one(c, 20, 32);
}

pub fn cases() -> Vec<Case> {
    let mut v = Vec::new();
    ucases!(v, "sqrt/checked_sqrt/wrapping_sqrt/SquareRoot::sqrt", sqrt_ct; 1, 2, 3, 4, 8, 16);
    ucases!(v, "sqrt_vartime/checked_sqrt_vartime/wrapping_sqrt_vartime/SquareRoot::sqrt_vartime", sqrt_vartime; 1, 2, 3, 4, 8, 16);
    case!(v, "BoxedUint::sqrt/checked_sqrt/wrapping_sqrt/SquareRoot::sqrt 1..=4 limbs", boxed_ct);
    case!(v, "BoxedUint::sqrt_vartime/checked_sqrt_vartime/wrapping_sqrt_vartime/SquareRoot::sqrt_vartime 1..=4 limbs", boxed_vt);
    case!(v, "BoxedUint::sqrt/checked_sqrt/wrapping_sqrt/SquareRoot::sqrt 5 and 20 limbs", boxed_ct_wide);
    case!(v, "BoxedUint::sqrt_vartime/checked_sqrt_vartime/wrapping_sqrt_vartime/SquareRoot::sqrt_vartime 5 and 20 limbs", boxed_vt_wide);
    v
}
