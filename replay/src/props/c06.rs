//! C06 — comparison, equality, hashing and conditional selection are mutually coherent.
//!
//! Oracle: the order of the represented integers (BigUint / BigInt `cmp`), plain reasoning for
//! "select returns exactly the chosen operand" and for `is_some` of option-like results.
//! Pairs: the generic pair corpus plus a == b, values differing in exactly one limb (lowest,
//! highest, middle; by one bit or by all bits), only in the sign bit, off by one (borrow through
//! equal high limbs), 0 vs MIN/MAX, and for BoxedUint zero-padded equal values of different
//! precisions.
//!
//! Two cases are expected to fire on crypto-bigint 0.7.0-pre and are kept apart from the counted
//! equal-precision checks: `... [cross-precision hash]` (Eq zero-pads, Hash is derived over the raw
//! limb slice) and `... [cross-precision cmp_vartime]` (only the limbs of `self` are looked at;
//! a `debug_assert` on the lengths fires first in this profile).

use super::prelude::*;
use crypto_bigint::subtle::{ConditionallyNegatable, ConstantTimeGreater, ConstantTimeLess};
use crypto_bigint::{CheckedAdd, CheckedSub, ConstantTimeSelect, Integer, Wrapping};
use std::hash::{DefaultHasher, Hash, Hasher};

fn hash_of<T: Hash>(t: &T) -> u64 {
    let mut h = DefaultHasher::new();
    t.hash(&mut h);
    h.finish()
}

fn ch(b: bool) -> Choice {
    Choice::from(b as u8)
}

fn cch(b: bool) -> ConstChoice {
    if b { ConstChoice::TRUE } else { ConstChoice::FALSE }
}

/// Unwrap the result of a guarded call, or report the panic and skip the dependent checks.
macro_rules! ok_or_report {
    ($c:ident, $r:expr; $($n:ident),*) => {
        match $r {
            Ok(v) => Some(v),
            Err(e) => {
                let r: Result<(), String> = Err(e);
                no_panic!($c, r; $($n),*);
                None
            }
        }
    };
}

// ---------------------------------------------------------------- corpora

/// Limb positions used for "differs in exactly one limb".
fn positions(l: usize) -> Vec<usize> {
    let mut p: Vec<usize> = if l <= 6 { (0..l).collect() } else { vec![0, 1, l / 2 - 1, l / 2, l - 2, l - 1] };
    p.dedup();
    p
}

/// Pairs (a, b) of values below 2^(64 l) relevant for comparisons.
fn cmp_pairs(c: &mut Ctx, l: usize) -> Vec<(BigUint, BigUint)> {
    let bits = 64 * l as u32;
    let max = mask(bits);
    let mut v = c.inputs2(l, l);
    let n = (c.cap / 16).clamp(16, 256);
    let mut base = c.edges(l, n);
    for _ in 0..(c.iters / 8).max(8) {
        base.push(c.rnd(l));
    }
    for a in &base {
        v.push((a.clone(), a.clone()));
        for i in positions(l) {
            for d in [1u64, 1 << 63, u64::MAX, c.word() | 1] {
                let b = a ^ (BigUint::from(d) << (64 * i));
                v.push((a.clone(), b.clone()));
                v.push((b, a.clone()));
            }
        }
        // off by one: the difference ripples through equal / all-ones / all-zero limbs
        let up = (a + 1u32) & &max;
        let down = (a + &max) & &max;
        v.push((a.clone(), up.clone()));
        v.push((up, a.clone()));
        v.push((a.clone(), down.clone()));
        v.push((down, a.clone()));
        // complement
        v.push((a.clone(), &max ^ a));
    }
    // 0 vs MIN / MAX (signed and unsigned extremes), extremes against each other
    let ext = [BigUint::zero(), BigUint::one(), pow2(bits - 1), pow2(bits - 1) - 1u32, pow2(bits - 1) + 1u32, max.clone(), &max - 1u32];
    for a in &ext {
        for b in &ext {
            v.push((a.clone(), b.clone()));
        }
    }
    v
}

/// Operand pairs for the selection cases: differing in every limb, in exactly one limb, equal.
fn select_pairs(c: &mut Ctx, l: usize) -> Vec<(BigUint, BigUint)> {
    let max = mask(64 * l as u32);
    let mut v = Vec::new();
    let n = (c.cap / 32).clamp(16, 128);
    let mut base = c.edges(l, n);
    for _ in 0..(c.iters / 8).max(16) {
        base.push(c.rnd(l));
    }
    for a in base {
        // every limb differs (complement; xor with a word pattern that is non-zero in every limb)
        v.push((a.clone(), &max ^ &a));
        let pat: Vec<u64> = (0..l).map(|_| c.word() | 1).collect();
        v.push((a.clone(), &a ^ words_to_big(&pat)));
        let ones: Vec<u64> = vec![1; l];
        v.push((a.clone(), &a ^ words_to_big(&ones)));
        // exactly one limb differs
        for i in positions(l) {
            let d = [1u64, 1 << 63, u64::MAX, c.word() | 1][c.below(4)];
            v.push((a.clone(), &a ^ (BigUint::from(d) << (64 * i))));
        }
        v.push((a.clone(), a.clone()));
        let r = c.rnd(l);
        v.push((a, r));
    }
    v.push((BigUint::zero(), max.clone()));
    v.push((max, BigUint::zero()));
    v
}

// ---------------------------------------------------------------- Uint

fn uint_cmp<const L: usize>(c: &mut Ctx) {
    for (x, y) in cmp_pairs(c, L) {
        if c.done() {
            return;
        }
        let (a, b) = (bu::<L>(&x), bu::<L>(&y));
        let ord = x.cmp(&y);
        check!(c, call(|| cb(a.ct_eq(&b))), x == y; x, y);
        check!(c, call(|| cb(a.ct_ne(&b))), x != y; x, y);
        check!(c, call(|| cb(a.ct_lt(&b))), x < y; x, y);
        check!(c, call(|| cb(a.ct_gt(&b))), x > y; x, y);
        check!(c, call(|| a == b), x == y; x, y);
        check!(c, call(|| a != b), x != y; x, y);
        check!(c, call(|| a < b), x < y; x, y);
        check!(c, call(|| a <= b), x <= y; x, y);
        check!(c, call(|| a > b), x > y; x, y);
        check!(c, call(|| a >= b), x >= y; x, y);
        check!(c, call(|| Ord::cmp(&a, &b)), ord; x, y);
        check!(c, call(|| PartialOrd::partial_cmp(&a, &b)), Some(ord); x, y);
        check!(c, call(|| a.cmp_vartime(&b)), ord; x, y);
        check!(c, call(|| Ord::max(a, b)).map(|v| ub(&v)), x.clone().max(y.clone()); x, y);
        check!(c, call(|| Ord::min(a, b)).map(|v| ub(&v)), x.clone().min(y.clone()); x, y);
        check!(c, call(|| cb(Wrapping(a).ct_eq(&Wrapping(b)))), x == y; x, y);
        if x == y {
            let _ = holds!(c, hash_of(&a) == hash_of(&b), "a == b => hash(a) == hash(b)"; x, y);
        }
        // Eq and Hash of the crate value itself must agree too (whatever the oracle says)
        if call(|| a == b) == Ok(true) {
            let _ = holds!(c, hash_of(&a) == hash_of(&b), "crate a == b => hash(a) == hash(b)"; x, y);
        }
    }
}

fn uint_predicates<const L: usize>(c: &mut Ctx) {
    let bits = 64 * L as u32;
    let mut vals = c.inputs1(L);
    for k in 0..bits {
        vals.push(pow2(k));
        vals.push(pow2(k) + 1u32);
    }
    for x in vals {
        if c.done() {
            return;
        }
        let x = x & mask(bits);
        let a = bu::<L>(&x);
        let (z, odd) = (x.is_zero(), x.bit(0));
        check!(c, call(|| cb(crypto_bigint::Zero::is_zero(&a))), z; x);
        check!(c, call(|| Zero::is_zero(&a)), z; x);
        check!(c, call(|| One::is_one(&a)), x.is_one(); x);
        check!(c, call(|| cb(Integer::is_odd(&a))), odd; x);
        check!(c, call(|| cb(Integer::is_even(&a))), !odd; x);
        // option-like constructors: is_some exactly as documented
        let nz = if z { None } else { Some(x.clone()) };
        let od = if odd { Some(x.clone()) } else { None };
        check!(c, call(|| (ccb(a.to_nz().is_some()), ccb(a.to_nz().is_none()))), (!z, z); x);
        check!(c, call(|| copt(a.to_nz()).map(|v| ub(v.as_ref()))), nz.clone(); x);
        check!(c, call(|| opt(NonZero::new(a)).map(|v| ub(v.as_ref()))), nz.clone(); x);
        check!(c, call(|| (ccb(a.to_odd().is_some()), ccb(a.to_odd().is_none()))), (odd, !odd); x);
        check!(c, call(|| copt(a.to_odd()).map(|v| ub(v.as_ref()))), od.clone(); x);
        check!(c, call(|| opt(Odd::new(a)).map(|v| ub(v.as_ref()))), od.clone(); x);
        // value equal to itself, hashes deterministic over a rebuilt copy
        let a2 = Uint::<L>::from_words(a.to_words());
        let _ = holds!(c, a == a2 && hash_of(&a) == hash_of(&a2), "x == x and hash(x) == hash(copy of x)"; x);
    }
}

fn uint_select<const L: usize>(c: &mut Ctx) {
    let bits = 64 * L as u32;
    for (x, y) in select_pairs(c, L) {
        let (a, b) = (bu::<L>(&x), bu::<L>(&y));
        for t in [false, true] {
            if c.done() {
                return;
            }
            // `a` if the choice is 0, `b` if it is 1 — the whole value
            let sel = if t { y.clone() } else { x.clone() };
            let swapped = if t { (y.clone(), x.clone()) } else { (x.clone(), y.clone()) };
            check!(c, call(|| Uint::conditional_select(&a, &b, ch(t))).map(|v| ub(&v)), sel.clone(); x, y, t);
            check!(c, call(|| <Uint<L> as ConstantTimeSelect>::ct_select(&a, &b, ch(t))).map(|v| ub(&v)), sel.clone(); x, y, t);
            check!(c, call(|| { let mut r = a; r.conditional_assign(&b, ch(t)); r }).map(|v| ub(&v)), sel.clone(); x, y, t);
            check!(c, call(|| { let mut r = a; ConstantTimeSelect::ct_assign(&mut r, &b, ch(t)); r }).map(|v| ub(&v)), sel.clone(); x, y, t);
            check!(c, call(|| { let (mut p, mut q) = (a, b); Uint::conditional_swap(&mut p, &mut q, ch(t)); (ub(&p), ub(&q)) }), swapped.clone(); x, y, t);
            check!(c, call(|| { let (mut p, mut q) = (a, b); ConstantTimeSelect::ct_swap(&mut p, &mut q, ch(t)); (ub(&p), ub(&q)) }), swapped.clone(); x, y, t);
            check!(c, call(|| Wrapping::conditional_select(&Wrapping(a), &Wrapping(b), ch(t))).map(|v| ub(&v.0)), sel.clone(); x, y, t);
            if !x.is_zero() && !y.is_zero() {
                check!(c, call(|| NonZero::conditional_select(&nzu::<L>(&x), &nzu::<L>(&y), ch(t))).map(|v| ub(v.as_ref())), sel.clone(); x, y, t);
            }
            if x.bit(0) && y.bit(0) {
                check!(c, call(|| Odd::conditional_select(&oddu::<L>(&x), &oddu::<L>(&y), ch(t))).map(|v| ub(v.as_ref())), sel.clone(); x, y, t);
            }
            // conditional negation: -x mod 2^BITS or x, nothing in between
            let neg = if t { (pow2(bits) - &x) & mask(bits) } else { x.clone() };
            check!(c, call(|| a.wrapping_neg_if(cch(t))).map(|v| ub(&v)), neg.clone(); x, t);
            // ConstCtOption / CtOption: unwrap_or gives the value exactly when is_some
            let sum = &x + &y;
            let fits_ = fits(&sum, bits);
            if let Some(o) = ok_or_report!(c, call(|| CheckedAdd::checked_add(&a, &b)); x, y) {
                check!(c, call(|| (cb(o.is_some()), cb(o.is_none()))), (fits_, !fits_); x, y);
                let dflt = if t { Uint::<L>::MAX } else { Uint::<L>::ZERO };
                let exp = if fits_ { sum.clone() } else { ub(&dflt) };
                check!(c, call(|| o.unwrap_or(dflt)).map(|v| ub(&v)), exp; x, y, t);
            }
            let s = (big_to_words(&y, 1)[0] % (2 * bits as u64 + 2)) as u32;
            if let Some(o) = ok_or_report!(c, call(|| a.overflowing_shl(s)); x, s) {
                let some = s < bits;
                check!(c, call(|| (ccb(o.is_some()), ccb(o.is_none()))), (some, !some); x, s);
                let dflt = if t { b } else { Uint::<L>::MAX };
                let exp = if some { (&x << s as usize) & mask(bits) } else { ub(&dflt) };
                check!(c, call(|| o.clone().unwrap_or(dflt)).map(|v| ub(&v)), exp.clone(); x, y, s, t);
                check!(c, call(|| opt(CtOption::from(o.clone())).is_some()), some; x, s);
                check!(c, call(|| copt(o.clone()).is_some()), some; x, s);
                // documented: unwrap / expect panic when the value is none
                if some {
                    check!(c, call(|| o.clone().unwrap()).map(|v| ub(&v)), exp.clone(); x, s);
                    check!(c, call(|| o.clone().expect("some")).map(|v| ub(&v)), exp; x, s);
                } else if t {
                    must_panic!(c, call(|| o.clone().unwrap()).map(|v| ub(&v)); x, s);
                    must_panic!(c, call(|| o.clone().expect("some")).map(|v| ub(&v)); x, s);
                }
            }
        }
    }
}

// ---------------------------------------------------------------- Int

fn int_cmp<const L: usize>(c: &mut Ctx) {
    let bits = 64 * L as u32;
    for (xu, yu) in cmp_pairs(c, L) {
        if c.done() {
            return;
        }
        let (x, y) = (wrap_signed(&BigInt::from(xu), bits), wrap_signed(&BigInt::from(yu), bits));
        let (a, b) = (bi::<L>(&x), bi::<L>(&y));
        let ord = x.cmp(&y);
        check!(c, call(|| cb(a.ct_eq(&b))), x == y; x, y);
        check!(c, call(|| cb(a.ct_ne(&b))), x != y; x, y);
        check!(c, call(|| cb(a.ct_lt(&b))), x < y; x, y);
        check!(c, call(|| cb(a.ct_gt(&b))), x > y; x, y);
        check!(c, call(|| a == b), x == y; x, y);
        check!(c, call(|| a != b), x != y; x, y);
        check!(c, call(|| a < b), x < y; x, y);
        check!(c, call(|| a <= b), x <= y; x, y);
        check!(c, call(|| a > b), x > y; x, y);
        check!(c, call(|| a >= b), x >= y; x, y);
        check!(c, call(|| Ord::cmp(&a, &b)), ord; x, y);
        check!(c, call(|| PartialOrd::partial_cmp(&a, &b)), Some(ord); x, y);
        check!(c, call(|| a.cmp_vartime(&b)), ord; x, y);
        check!(c, call(|| Ord::max(a, b)).map(|v| ib(&v)), x.clone().max(y.clone()); x, y);
        check!(c, call(|| Ord::min(a, b)).map(|v| ib(&v)), x.clone().min(y.clone()); x, y);
        if x == y {
            let _ = holds!(c, hash_of(&a) == hash_of(&b), "a == b => hash(a) == hash(b)"; x, y);
        }
        if call(|| a == b) == Ok(true) {
            let _ = holds!(c, hash_of(&a) == hash_of(&b), "crate a == b => hash(a) == hash(b)"; x, y);
        }
    }
}

fn int_predicates<const L: usize>(c: &mut Ctx) {
    let bits = 64 * L as u32;
    let mut vals = c.inputs1(L);
    for k in 0..bits {
        vals.push(pow2(k));
        vals.push(mask(bits) ^ pow2(k));
    }
    for xu in vals {
        if c.done() {
            return;
        }
        let x = wrap_signed(&BigInt::from(xu), bits);
        let a = bi::<L>(&x);
        let (z, neg) = (x.is_zero(), x < BigInt::zero());
        let odd = wrap_unsigned(&x, bits).bit(0);
        check!(c, call(|| ccb(a.is_negative())), neg; x);
        check!(c, call(|| ccb(a.is_positive())), !neg && !z; x);
        check!(c, call(|| ccb(a.is_min())), x == smin(bits); x);
        check!(c, call(|| ccb(a.is_max())), x == smax(bits); x);
        check!(c, call(|| cb(crypto_bigint::Zero::is_zero(&a))), z; x);
        check!(c, call(|| Zero::is_zero(&a)), z; x);
        check!(c, call(|| One::is_one(&a)), x.is_one(); x);
        let nz = if z { None } else { Some(x.clone()) };
        let od = if odd { Some(x.clone()) } else { None };
        check!(c, call(|| (ccb(a.to_nz().is_some()), ccb(a.to_nz().is_none()))), (!z, z); x);
        check!(c, call(|| copt(a.to_nz()).map(|v| ib(v.as_ref()))), nz.clone(); x);
        check!(c, call(|| opt(NonZero::new(a)).map(|v| ib(v.as_ref()))), nz; x);
        check!(c, call(|| (ccb(a.to_odd().is_some()), ccb(a.to_odd().is_none()))), (odd, !odd); x);
        check!(c, call(|| copt(a.to_odd()).map(|v| ib(v.as_ref()))), od; x);
        // checked_neg: none exactly for MIN
        let e = if x == smin(bits) { None } else { Some(-&x) };
        check!(c, call(|| copt(a.checked_neg()).map(|v| ib(&v))), e.clone(); x);
        check!(c, call(|| (ccb(a.checked_neg().is_some()), ccb(a.checked_neg().is_none()))), (e.is_some(), e.is_none()); x);
        check!(c, call(|| a.checked_neg().unwrap_or(Int::<L>::ONE)).map(|v| ib(&v)), e.clone().unwrap_or_else(BigInt::one); x);
        // abs / sign split and back: new_from_abs_sign is some exactly when the magnitude fits
        let mag = x.magnitude().clone();
        check!(c, call(|| { let (m, s) = a.abs_sign(); (ub(&m), ccb(s)) }), (mag.clone(), neg); x);
        check!(c, call(|| copt(Int::<L>::new_from_abs_sign(bu::<L>(&mag), cch(neg))).map(|v| ib(&v))), Some(x.clone()); x);
        let um = wrap_unsigned(&x, bits); // the same bits as an unsigned magnitude
        for sg in [false, true] {
            let val = if sg { -BigInt::from(um.clone()) } else { BigInt::from(um.clone()) };
            let e = if fits_signed(&val, bits) { Some(val) } else { None };
            check!(c, call(|| copt(Int::<L>::new_from_abs_sign(bu::<L>(&um), cch(sg))).map(|v| ib(&v))), e; um, sg);
        }
    }
}

fn int_select<const L: usize>(c: &mut Ctx) {
    let bits = 64 * L as u32;
    for (xu, yu) in select_pairs(c, L) {
        let (x, y) = (wrap_signed(&BigInt::from(xu), bits), wrap_signed(&BigInt::from(yu), bits));
        let (a, b) = (bi::<L>(&x), bi::<L>(&y));
        for t in [false, true] {
            if c.done() {
                return;
            }
            let sel = if t { y.clone() } else { x.clone() };
            let swapped = if t { (y.clone(), x.clone()) } else { (x.clone(), y.clone()) };
            check!(c, call(|| Int::conditional_select(&a, &b, ch(t))).map(|v| ib(&v)), sel.clone(); x, y, t);
            check!(c, call(|| <Int<L> as ConstantTimeSelect>::ct_select(&a, &b, ch(t))).map(|v| ib(&v)), sel.clone(); x, y, t);
            check!(c, call(|| { let mut r = a; r.conditional_assign(&b, ch(t)); r }).map(|v| ib(&v)), sel.clone(); x, y, t);
            check!(c, call(|| { let mut r = a; ConstantTimeSelect::ct_assign(&mut r, &b, ch(t)); r }).map(|v| ib(&v)), sel.clone(); x, y, t);
            check!(c, call(|| { let (mut p, mut q) = (a, b); Int::conditional_swap(&mut p, &mut q, ch(t)); (ib(&p), ib(&q)) }), swapped.clone(); x, y, t);
            check!(c, call(|| { let (mut p, mut q) = (a, b); ConstantTimeSelect::ct_swap(&mut p, &mut q, ch(t)); (ib(&p), ib(&q)) }), swapped; x, y, t);
            // wrapping_neg_if: -x (MIN stays MIN, documented) or x
            let neg = if t { wrap_signed(&-&x, bits) } else { x.clone() };
            check!(c, call(|| a.wrapping_neg_if(cch(t))).map(|v| ib(&v)), neg; x, t);
            // Int::checked_add (ConstCtOption) and the CheckedAdd / CheckedSub traits (CtOption)
            let sum = &x + &y;
            let ok = fits_signed(&sum, bits);
            let dflt = if t { Int::<L>::MIN } else { Int::<L>::MINUS_ONE };
            if let Some(o) = ok_or_report!(c, call(|| a.checked_add(&b)); x, y) {
                check!(c, call(|| (ccb(o.is_some()), ccb(o.is_none()))), (ok, !ok); x, y);
                check!(c, call(|| o.clone().unwrap_or(dflt)).map(|v| ib(&v)), if ok { sum.clone() } else { ib(&dflt) }; x, y, t);
            }
            check!(c, call(|| opt(CheckedAdd::checked_add(&a, &b)).map(|v| ib(&v))), if ok { Some(sum.clone()) } else { None }; x, y);
            let diff = &x - &y;
            let okd = fits_signed(&diff, bits);
            if let Some(o) = ok_or_report!(c, call(|| CheckedSub::checked_sub(&a, &b)); x, y) {
                check!(c, call(|| (cb(o.is_some()), cb(o.is_none()))), (okd, !okd); x, y);
                check!(c, call(|| o.unwrap_or(dflt)).map(|v| ib(&v)), if okd { diff.clone() } else { ib(&dflt) }; x, y, t);
            }
        }
    }
}

// ---------------------------------------------------------------- Limb

fn limb_cmp(c: &mut Ctx) {
    for (x, y) in cmp_pairs(c, 1) {
        if c.done() {
            return;
        }
        let (a, b) = (bl(&x), bl(&y));
        let ord = x.cmp(&y);
        check!(c, call(|| cb(a.ct_eq(&b))), x == y; x, y);
        check!(c, call(|| cb(a.ct_ne(&b))), x != y; x, y);
        check!(c, call(|| cb(a.ct_lt(&b))), x < y; x, y);
        check!(c, call(|| cb(a.ct_gt(&b))), x > y; x, y);
        check!(c, call(|| a == b), x == y; x, y);
        check!(c, call(|| a != b), x != y; x, y);
        check!(c, call(|| a < b), x < y; x, y);
        check!(c, call(|| a <= b), x <= y; x, y);
        check!(c, call(|| a > b), x > y; x, y);
        check!(c, call(|| a >= b), x >= y; x, y);
        check!(c, call(|| Ord::cmp(&a, &b)), ord; x, y);
        check!(c, call(|| PartialOrd::partial_cmp(&a, &b)), Some(ord); x, y);
        check!(c, call(|| a.cmp_vartime(&b)), ord; x, y);
        check!(c, call(|| a.eq_vartime(&b)), x == y; x, y);
        if x == y {
            let _ = holds!(c, hash_of(&a) == hash_of(&b), "a == b => hash(a) == hash(b)"; x, y);
        }
        // predicates
        check!(c, call(|| cb(a.is_odd())), x.bit(0); x);
        check!(c, call(|| cb(crypto_bigint::Zero::is_zero(&a))), x.is_zero(); x);
        check!(c, call(|| Zero::is_zero(&a)), x.is_zero(); x);
        check!(c, call(|| One::is_one(&a)), x.is_one(); x);
        check!(c, call(|| (ccb(a.to_nz().is_some()), ccb(a.to_nz().is_none()))), (!x.is_zero(), x.is_zero()); x);
        check!(c, call(|| opt(NonZero::new(a)).map(|v| lb(*v.as_ref()))), if x.is_zero() { None } else { Some(x.clone()) }; x);
        // selection
        for t in [false, true] {
            let sel = if t { y.clone() } else { x.clone() };
            let swapped = if t { (y.clone(), x.clone()) } else { (x.clone(), y.clone()) };
            check!(c, call(|| Limb::conditional_select(&a, &b, ch(t))).map(lb), sel.clone(); x, y, t);
            check!(c, call(|| <Limb as ConstantTimeSelect>::ct_select(&a, &b, ch(t))).map(lb), sel.clone(); x, y, t);
            check!(c, call(|| { let mut r = a; r.conditional_assign(&b, ch(t)); r }).map(lb), sel.clone(); x, y, t);
            check!(c, call(|| { let mut r = a; ConstantTimeSelect::ct_assign(&mut r, &b, ch(t)); r }).map(lb), sel; x, y, t);
            check!(c, call(|| { let (mut p, mut q) = (a, b); Limb::conditional_swap(&mut p, &mut q, ch(t)); (lb(p), lb(q)) }), swapped.clone(); x, y, t);
            check!(c, call(|| { let (mut p, mut q) = (a, b); ConstantTimeSelect::ct_swap(&mut p, &mut q, ch(t)); (lb(p), lb(q)) }), swapped; x, y, t);
        }
        let sum = &x + &y;
        check!(c, call(|| opt(CheckedAdd::checked_add(&a, &b)).map(lb)), if fits(&sum, 64) { Some(sum) } else { None }; x, y);
        check!(c, call(|| opt(CheckedSub::checked_sub(&a, &b)).map(lb)), if x >= y { Some(&x - &y) } else { None }; x, y);
    }
}

// ---------------------------------------------------------------- ConstChoice

fn const_choice(c: &mut Ctx) {
    for t in [false, true] {
        let k = cch(t);
        check!(c, call(|| ccb(k)), t; t);
        check!(c, call(|| cb(Choice::from(k))), t; t);
        check!(c, call(|| ccb(ConstChoice::from(ch(t)))), t; t);
        check!(c, call(|| ConstChoice::from(ch(t)) == k), true; t);
        for u in [false, true] {
            check!(c, call(|| cch(t) == cch(u)), t == u; t, u);
        }
    }
    check!(c, call(|| (ccb(ConstChoice::TRUE), ccb(ConstChoice::FALSE))), (true, false););
}

// ---------------------------------------------------------------- BoxedUint

/// Pairs for two precisions: the generic corpus plus equal values (zero padded on one side),
/// values differing only above the shorter precision, only in the lowest limb, off by one.
fn boxed_pairs(c: &mut Ctx, la: usize, lb_: usize) -> Vec<(BigUint, BigUint)> {
    let lo = la.min(lb_);
    let (ma, mb) = (mask(64 * la as u32), mask(64 * lb_ as u32));
    let mut v = c.inputs2(la, lb_);
    let n = (c.cap / 16).clamp(8, 48);
    let mut base = c.edges(lo, n);
    for _ in 0..(c.iters / 8).max(8) {
        base.push(c.rnd(lo));
    }
    for e in base {
        v.push((e.clone(), e.clone()));
        v.push((e.clone(), (&e + 1u32) & &mb));
        v.push(((&e + 1u32) & &ma, e.clone()));
        v.push((e.clone(), &e ^ BigUint::one()));
        for i in 0..la.max(lb_) {
            for d in [1u64, 1 << 63, u64::MAX] {
                let f = &e ^ (BigUint::from(d) << (64 * i));
                if f <= mb {
                    v.push((e.clone(), f.clone()));
                }
                if f <= ma {
                    v.push((f, e.clone()));
                }
            }
        }
    }
    v
}

const BOXED_SHAPES: [(usize, usize); 13] = [(1, 1), (2, 2), (3, 3), (4, 4), (5, 5), (1, 2), (2, 1), (1, 4), (4, 1), (2, 3), (3, 2), (3, 4), (5, 2)];

fn boxed_cmp(c: &mut Ctx) {
    for (la, lb_) in BOXED_SHAPES {
        for (x, y) in c.scaled(BOXED_SHAPES.len(), |c| boxed_pairs(c, la, lb_)) {
            if c.done() {
                return;
            }
            let (a, b) = (bx(&x, la), bx(&y, lb_));
            let ord = x.cmp(&y);
            check!(c, call(|| cb(a.ct_eq(&b))), x == y; x, y, la, lb_);
            check!(c, call(|| cb(a.ct_ne(&b))), x != y; x, y, la, lb_);
            check!(c, call(|| cb(a.ct_lt(&b))), x < y; x, y, la, lb_);
            check!(c, call(|| cb(a.ct_gt(&b))), x > y; x, y, la, lb_);
            check!(c, call(|| a == b), x == y; x, y, la, lb_);
            check!(c, call(|| a != b), x != y; x, y, la, lb_);
            check!(c, call(|| a < b), x < y; x, y, la, lb_);
            check!(c, call(|| a <= b), x <= y; x, y, la, lb_);
            check!(c, call(|| a > b), x > y; x, y, la, lb_);
            check!(c, call(|| a >= b), x >= y; x, y, la, lb_);
            check!(c, call(|| Ord::cmp(&a, &b)), ord; x, y, la, lb_);
            check!(c, call(|| PartialOrd::partial_cmp(&a, &b)), Some(ord); x, y, la, lb_);
            if la == lb_ {
                check!(c, call(|| a.cmp_vartime(&b)), ord; x, y, la, lb_);
                if x == y {
                    let _ = holds!(c, hash_of(&a) == hash_of(&b), "a == b => hash(a) == hash(b) (equal precision)"; x, y, la, lb_);
                }
            }
        }
    }
}

/// `a == b => hash(a) == hash(b)` for operands of different precisions.
fn boxed_hash_cross(c: &mut Ctx) {
    for (la, lb_) in BOXED_SHAPES {
        if la == lb_ {
            continue;
        }
        for (x, y) in c.scaled(BOXED_SHAPES.len(), |c| boxed_pairs(c, la, lb_)) {
            if c.done() {
                return;
            }
            let (a, b) = (bx(&x, la), bx(&y, lb_));
            if call(|| a == b) == Ok(true) {
                let _ = holds!(c, hash_of(&a) == hash_of(&b), "a == b => hash(a) == hash(b) (different precisions)"; x, y, la, lb_);
            }
        }
    }
}

/// `cmp_vartime` for operands of different precisions (no precondition is documented).
fn boxed_cmp_vartime_cross(c: &mut Ctx) {
    for (la, lb_) in BOXED_SHAPES {
        if la == lb_ {
            continue;
        }
        for (x, y) in c.scaled(BOXED_SHAPES.len(), |c| boxed_pairs(c, la, lb_)) {
            if c.done() {
                return;
            }
            let (a, b) = (bx(&x, la), bx(&y, lb_));
            check!(c, call(|| a.cmp_vartime(&b)), x.cmp(&y); x, y, la, lb_);
        }
    }
}

fn boxed_predicates(c: &mut Ctx) {
    for nl in [1usize, 2, 3, 4, 5] {
        let mut vals = c.scaled(5, |c| c.inputs1(nl));
        for k in 0..64 * nl as u32 {
            vals.push(pow2(k));
            vals.push(pow2(k) + 1u32);
        }
        for x in vals {
            if c.done() {
                return;
            }
            let x = x & mask(64 * nl as u32);
            let a = bx(&x, nl);
            let (z, odd) = (x.is_zero(), x.bit(0));
            check!(c, call(|| cb(a.is_zero())), z; x, nl);
            check!(c, call(|| cb(a.is_nonzero())), !z; x, nl);
            check!(c, call(|| cb(a.is_one())), x.is_one(); x, nl);
            check!(c, call(|| cb(crypto_bigint::Zero::is_zero(&a))), z; x, nl);
            check!(c, call(|| Zero::is_zero(&a)), z; x, nl);
            check!(c, call(|| One::is_one(&a)), x.is_one(); x, nl);
            check!(c, call(|| cb(Integer::is_odd(&a))), odd; x, nl);
            check!(c, call(|| cb(Integer::is_even(&a))), !odd; x, nl);
            check!(c, call(|| opt(NonZero::new(a.clone())).map(|v| xb(v.as_ref()))), if z { None } else { Some(x.clone()) }; x, nl);
            check!(c, call(|| opt(Odd::new(a.clone())).map(|v| xb(v.as_ref()))), if odd { Some(x.clone()) } else { None }; x, nl);
            let a2 = bx(&x, nl);
            let _ = holds!(c, a == a2 && hash_of(&a) == hash_of(&a2), "x == x and hash(x) == hash(copy of x)"; x, nl);
        }
    }
}

fn boxed_select(c: &mut Ctx) {
    // selection is defined for operands of one precision
    for nl in [1usize, 2, 3, 4, 5] {
        let bits = 64 * nl as u32;
        for (x, y) in c.scaled(5, |c| select_pairs(c, nl)) {
            let (a, b) = (bx(&x, nl), bx(&y, nl));
            for t in [false, true] {
                if c.done() {
                    return;
                }
                let sel = (if t { y.clone() } else { x.clone() }, nl);
                let swapped = if t { (y.clone(), x.clone()) } else { (x.clone(), y.clone()) };
                check!(c, call(|| BoxedUint::ct_select(&a, &b, ch(t))).map(|v| (xb(&v), v.nlimbs())), sel.clone(); x, y, nl, t);
                check!(c, call(|| { let mut r = a.clone(); r.ct_assign(&b, ch(t)); r }).map(|v| (xb(&v), v.nlimbs())), sel.clone(); x, y, nl, t);
                check!(c, call(|| { let (mut p, mut q) = (a.clone(), b.clone()); BoxedUint::ct_swap(&mut p, &mut q, ch(t)); (xb(&p), xb(&q)) }), swapped; x, y, nl, t);
                let neg = (if t { (pow2(bits) - &x) & mask(bits) } else { x.clone() }, nl);
                check!(c, call(|| { let mut r = a.clone(); r.conditional_negate(ch(t)); r }).map(|v| (xb(&v), v.nlimbs())), neg; x, nl, t);
                let sum = &x + &y;
                let ok = fits(&sum, bits);
                if let Some(o) = ok_or_report!(c, call(|| CheckedAdd::checked_add(&a, &b)); x, y, nl) {
                    check!(c, call(|| (cb(o.is_some()), cb(o.is_none()))), (ok, !ok); x, y, nl);
                    check!(c, call(|| opt(o).map(|v| (xb(&v), v.nlimbs()))), if ok { Some((sum.clone(), nl)) } else { None }; x, y, nl);
                }
                check!(c, call(|| opt(CheckedSub::checked_sub(&a, &b)).map(|v| xb(&v))), if x >= y { Some(&x - &y) } else { None }; x, y, nl);
            }
        }
    }
}

pub fn cases() -> Vec<Case> {
    let mut v = Vec::new();
    ucases!(v, "ct_eq/ct_ne/ct_lt/ct_gt/==/</cmp/partial_cmp/cmp_vartime/Hash", uint_cmp; 1, 2, 3, 4, 6, 16);
    ucases!(v, "is_zero/is_one/is_odd/is_even/to_nz/to_odd/NonZero::new/Odd::new", uint_predicates; 1, 2, 3, 4, 16);
    ucases!(v, "conditional_select/ct_select/assign/swap/wrapping_neg_if/CtOption+ConstCtOption coherence", uint_select; 1, 2, 3, 4, 6, 16);
    icases!(v, "ct_eq/ct_ne/ct_lt/ct_gt/==/</cmp/partial_cmp/cmp_vartime/Hash", int_cmp; 1, 2, 3, 4, 16);
    icases!(v, "is_negative/is_positive/is_min/is_max/is_zero/is_one/to_nz/to_odd/checked_neg/new_from_abs_sign", int_predicates; 1, 2, 3, 4, 16);
    icases!(v, "conditional_select/ct_select/assign/swap/wrapping_neg_if/checked_add+checked_sub options", int_select; 1, 2, 3, 4, 16);
    case!(v, "Limb comparisons/predicates/select/swap/checked options", limb_cmp);
    case!(v, "ConstChoice TRUE/FALSE/From<Choice>/Into<Choice>/Into<bool>/==", const_choice);
    case!(v, "BoxedUint comparisons (equal and mixed precisions), Hash at equal precision", boxed_cmp);
    case!(v, "BoxedUint is_zero/is_nonzero/is_one/is_odd/is_even/NonZero::new/Odd::new", boxed_predicates);
    case!(v, "BoxedUint ct_select/ct_assign/ct_swap/conditional_negate/checked options", boxed_select);
    case!(v, "BoxedUint Eq vs Hash [cross-precision hash]", boxed_hash_cross);
    case!(v, "BoxedUint::cmp_vartime [cross-precision cmp_vartime]", boxed_cmp_vartime_cross);
    v
}
