//! C19 (thin: range, errors and fixed/boxed stream agreement only — no uniformity statistics).
//!
//! Modular sampling must return a value strictly below the modulus, bit-bounded sampling a value
//! below 2^bit_length, with the documented error exactly when the length exceeds the target (or
//! the precision mismatches). Fixed and boxed integers of the same width must consume the stream
//! identically and return the same value. Streams: ChaCha8 from many seeds and adversarial stubs
//! (all ones, all zeros, words equal to / one above / one below the modulus' top limb) that
//! switch to a splitmix64 stream after a while so that rejection sampling terminates.

use super::prelude::*;
use crypto_bigint::{Random, RandomBits, RandomBitsError, RandomMod};
use rand_chacha::ChaCha8Rng;
use rand_core::{RngCore, SeedableRng};

// ---------------------------------------------------------------- RNGs

#[derive(Clone)]
enum TestRng {
    Cha(ChaCha8Rng),
    /// `word` for `reps` draws, then splitmix64 from state `ctr`
    Stub { word: u64, reps: usize, ctr: u64 },
}

impl TestRng {
    fn word(&mut self) -> u64 {
        match self {
            TestRng::Cha(r) => r.next_u64(),
            TestRng::Stub { word, reps, ctr } => {
                if *reps > 0 {
                    *reps -= 1;
                    *word
                } else {
                    // splitmix64: a plain counter resonates with the draw pattern of the rejection loop
                    // (hi word, k-1 low words, hi word, ..) and can make it reject forever
                    *ctr = ctr.wrapping_add(0x9e37_79b9_7f4a_7c15);
                    let mut z = *ctr;
                    z = (z ^ (z >> 30)).wrapping_mul(0xbf58_476d_1ce4_e5b9);
                    z = (z ^ (z >> 27)).wrapping_mul(0x94d0_49bb_1331_11eb);
                    z ^ (z >> 31)
                }
            }
        }
    }
}

impl RngCore for TestRng {
    fn next_u32(&mut self) -> u32 {
        match self {
            TestRng::Cha(r) => r.next_u32(),
            _ => self.word() as u32,
        }
    }
    fn next_u64(&mut self) -> u64 {
        self.word()
    }
    fn fill_bytes(&mut self, dst: &mut [u8]) {
        match self {
            TestRng::Cha(r) => r.fill_bytes(dst),
            _ => {
                for chunk in dst.chunks_mut(8) {
                    let w = self.word().to_le_bytes();
                    chunk.copy_from_slice(&w[..chunk.len()]);
                }
            }
        }
    }
}

/// (description, rng): ChaCha streams and the adversarial stubs for a modulus whose top limb is `top`.
fn rngs(c: &mut Ctx, top: u64, n_cha: usize) -> Vec<(String, TestRng)> {
    let mut v = Vec::new();
    for _ in 0..n_cha {
        let seed = c.word();
        v.push((format!("chacha8(seed=0x{:x})", seed), TestRng::Cha(ChaCha8Rng::seed_from_u64(seed))));
    }
    for (name, word) in [("ones", u64::MAX), ("zeros", 0), ("top", top), ("top+1", top.wrapping_add(1)), ("top-1", top.wrapping_sub(1))] {
        for (reps, ctr) in [(40usize, 0u64), (7, u64::MAX - 3)] {
            v.push((format!("stub({} x{}, then splitmix64 from 0x{:x})", name, reps, ctr), TestRng::Stub { word, reps, ctr }));
        }
    }
    v
}

/// `below!(c, got, bound; inputs..)`: `got: Result<BigUint, String>` must be `< bound`.
macro_rules! below {
    ($c:expr, $got:expr, $bound:expr; $($name:ident),* $(,)?) => {{
        let got__ = $got;
        match &got__ {
            Ok(value) => {
                let value = value.clone();
                let _ = holds!($c, value < $bound, "value strictly below the bound"; value, $($name),*);
            }
            Err(_) => {
                no_panic!($c, got__; $($name),*);
            }
        }
    }};
}

// ---------------------------------------------------------------- moduli

/// Moduli below 2^(64 l): 1..l significant limbs; top limb 1, 2, 3, 2^j, 2^j +- 1, MAX, MAX-1;
/// low limbs all zero / all MAX / random.
fn moduli(c: &mut Ctx, l: usize) -> Vec<BigUint> {
    let mut tops: Vec<u64> = vec![1, 2, 3, u64::MAX, u64::MAX - 1];
    for j in [2u32, 8, 31, 32, 33, 62, 63] {
        tops.extend([1 << j, (1 << j) - 1, (1u64 << j).wrapping_add(1)]);
    }
    let ks: Vec<usize> = if l <= 4 { (1..=l).collect() } else { vec![1, 2, l / 2, l - 1, l] };
    let mut v = Vec::new();
    for k in ks {
        for &t in &tops {
            for low in 0..3 {
                let mut w: Vec<u64> = (0..k - 1)
                    .map(|_| match low {
                        0 => 0,
                        1 => u64::MAX,
                        _ => c.edgy_word(),
                    })
                    .collect();
                w.push(t);
                v.push(words_to_big(&w));
                if k == 1 {
                    break;
                }
            }
        }
    }
    for _ in 0..(c.iters / 40).max(8) {
        let m = c.rnd(l);
        if !m.is_zero() {
            v.push(m);
        }
    }
    v
}

fn top_limb(m: &BigUint) -> u64 {
    *m.to_u64_digits().last().unwrap_or(&0)
}

// ---------------------------------------------------------------- random_mod

fn random_mod_uint<const L: usize>(c: &mut Ctx) {
    for m in moduli(c, L) {
        if c.done() {
            return;
        }
        let (nz, nzb) = (nzu::<L>(&m), nzx(&m, L));
        let n_cha = 3 + c.iters / 200;
        for (rng, r0) in rngs(c, top_limb(&m), n_cha) {
            let mut r = r0.clone();
            let fixed = call(|| { let v = Uint::<L>::random_mod(&mut r, &nz); (ub(&v), r.next_u64()) });
            below!(c, fixed.clone().map(|v| v.0), m; m, rng);
            let mut r = r0.clone();
            let tried = call(|| { let v = Uint::<L>::try_random_mod(&mut r, &nz).expect("infallible rng"); (ub(&v), r.next_u64()) });
            below!(c, tried.clone().map(|v| v.0), m; m, rng);
            // same stream -> same value, same consumption: try_ form, boxed form (precision of the modulus)
            if let Ok(f) = fixed {
                check!(c, tried, f.clone(); m, rng);
                let mut r = r0.clone();
                let boxed = call(|| { let v = BoxedUint::random_mod(&mut r, &nzb); (xb(&v), r.next_u64(), v.nlimbs()) });
                check!(c, boxed, (f.0.clone(), f.1, L); m, rng);
                let mut r = r0.clone();
                let boxed = call(|| { let v = BoxedUint::try_random_mod(&mut r, &nzb).expect("infallible rng"); (xb(&v), r.next_u64(), v.nlimbs()) });
                check!(c, boxed, (f.0.clone(), f.1, L); m, rng);
            }
        }
    }
}

fn random_mod_boxed(c: &mut Ctx) {
    // precisions wider than the modulus needs (zero high limbs), 1..=4 limbs + 16
    for limbs in [1usize, 2, 3, 4, 16] {
        for m in c.scaled(4, |c| moduli(c, limbs)) {
            if c.done() {
                return;
            }
            for extra in [0usize, 1, 3] {
                let prec = limbs + extra;
                let nzb = nzx(&m, prec);
                for (rng, r0) in rngs(c, top_limb(&m), 1) {
                    let mut r = r0.clone();
                    let got = call(|| { let v = BoxedUint::random_mod(&mut r, &nzb); (xb(&v), v.nlimbs()) });
                    below!(c, got.clone().map(|v| v.0), m; m, prec, rng);
                    // documented nowhere else: the result has the precision of the modulus
                    check!(c, got.map(|v| v.1), prec; m, prec, rng);
                }
            }
        }
    }
}

fn random_mod_limb(c: &mut Ctx) {
    for m in moduli(c, 1) {
        if c.done() {
            return;
        }
        let nz = nzl(&m);
        for (rng, r0) in rngs(c, top_limb(&m), 4) {
            let mut r = r0.clone();
            let a = call(|| { let v = Limb::random_mod(&mut r, &nz); (lb(v), r.next_u64()) });
            below!(c, a.clone().map(|v| v.0), m; m, rng);
            let mut r = r0.clone();
            let b = call(|| { let v = Limb::try_random_mod(&mut r, &nz).expect("infallible rng"); (lb(v), r.next_u64()) });
            below!(c, b.clone().map(|v| v.0), m; m, rng);
            if let Ok(a) = a {
                check!(c, b, a; m, rng);
            }
        }
    }
}

// ---------------------------------------------------------------- random_bits

/// oracle-typed view of a `try_random_bits*` result
fn bits_result<T, E>(r: Result<T, RandomBitsError<E>>, f: impl Fn(&T) -> BigUint) -> Result<BigUint, String> {
    match r {
        Ok(v) => Ok(f(&v)),
        Err(RandomBitsError::BitLengthTooLarge { bit_length, bits_precision }) => Err(format!("BitLengthTooLarge({}, {})", bit_length, bits_precision)),
        Err(RandomBitsError::BitsPrecisionMismatch { bits_precision, integer_bits }) => Err(format!("BitsPrecisionMismatch({}, {})", bits_precision, integer_bits)),
        Err(RandomBitsError::RandCore(_)) => Err("RandCore".to_string()),
    }
}

fn random_bits_uint<const L: usize>(c: &mut Ctx) {
    let bits = 64 * L as u32;
    // every bit length 0..=BITS
    for bit_length in 0..=bits {
        if c.done() {
            return;
        }
        let n_cha = if L <= 4 { 2 } else { 1 };
        for (rng, r0) in rngs(c, 0, n_cha).into_iter().step_by(if L <= 4 { 1 } else { 3 }) {
            let mut r = r0.clone();
            let fixed = call(|| { let v = Uint::<L>::random_bits(&mut r, bit_length); (ub(&v), r.next_u64()) });
            below!(c, fixed.clone().map(|v| v.0), pow2(bit_length); bit_length, rng);
            let Ok(f) = fixed else { continue };
            let mut r = r0.clone();
            let t = call(|| (bits_result(Uint::<L>::try_random_bits(&mut r, bit_length), ub), r.next_u64()));
            check!(c, t, (Ok(f.0.clone()), f.1); bit_length, rng);
            let mut r = r0.clone();
            let t = call(|| (bits_result(Uint::<L>::try_random_bits_with_precision(&mut r, bit_length, bits), ub), r.next_u64()));
            check!(c, t, (Ok(f.0.clone()), f.1); bit_length, rng);
            let mut r = r0.clone();
            let t = call(|| { let v = Uint::<L>::random_bits_with_precision(&mut r, bit_length, bits); (ub(&v), r.next_u64()) });
            check!(c, t, f.clone(); bit_length, rng);
            // Int: the same bits
            let mut r = r0.clone();
            let t = call(|| { let v = Int::<L>::random_bits(&mut r, bit_length); (ub(v.as_uint()), r.next_u64()) });
            check!(c, t, f.clone(); bit_length, rng);
            let mut r = r0.clone();
            let t = call(|| (bits_result(Int::<L>::try_random_bits_with_precision(&mut r, bit_length, bits), |v| ub(v.as_uint())), r.next_u64()));
            check!(c, t, (Ok(f.0.clone()), f.1); bit_length, rng);
            // boxed of the same width: same value, same consumption, requested precision
            let mut r = r0.clone();
            let t = call(|| { let v = BoxedUint::try_random_bits_with_precision(&mut r, bit_length, bits); let p = v.as_ref().map(|v| v.bits_precision()).unwrap_or(0); (bits_result(v, xb), r.next_u64(), p) });
            check!(c, t, (Ok(f.0.clone()), f.1, bits); bit_length, rng);
            let mut r = r0.clone();
            let t = call(|| { let v = BoxedUint::random_bits_with_precision(&mut r, bit_length, bits); (xb(&v), r.next_u64(), v.bits_precision()) });
            check!(c, t, (f.0.clone(), f.1, bits); bit_length, rng);
            // boxed with the minimal precision: same value, precision = bit_length rounded up to limbs
            // (a BoxedUint has at least one limb)
            let mut r = r0.clone();
            let t = call(|| { let v = BoxedUint::random_bits(&mut r, bit_length); (xb(&v), r.next_u64(), v.bits_precision()) });
            check!(c, t, (f.0.clone(), f.1, (bit_length.div_ceil(64) * 64).max(64)); bit_length, rng);
        }
    }
    // documented errors: bit_length above the target, precision different from the type's
    let mut r = TestRng::Cha(ChaCha8Rng::seed_from_u64(c.word()));
    for bit_length in [bits + 1, bits + 2, bits + 63, bits + 64, 2 * bits, u32::MAX] {
        let e: Result<BigUint, String> = Err(format!("BitLengthTooLarge({}, {})", bit_length, bits));
        check!(c, call(|| bits_result(Uint::<L>::try_random_bits(&mut r, bit_length), ub)), e.clone(); bit_length);
        check!(c, call(|| bits_result(Uint::<L>::try_random_bits_with_precision(&mut r, bit_length, bits), ub)), e.clone(); bit_length);
        check!(c, call(|| bits_result(Int::<L>::try_random_bits(&mut r, bit_length), |v| ub(v.as_uint()))), e.clone(); bit_length);
        check!(c, call(|| bits_result(BoxedUint::try_random_bits_with_precision(&mut r, bit_length, bits), xb)), e; bit_length);
        // "A wrapper for try_random_bits that panics on error"
        must_panic!(c, call(|| Uint::<L>::random_bits(&mut r, bit_length)); bit_length);
        must_panic!(c, call(|| Uint::<L>::random_bits_with_precision(&mut r, bit_length, bits)); bit_length);
        must_panic!(c, call(|| BoxedUint::random_bits_with_precision(&mut r, bit_length, bits)); bit_length);
    }
    for prec in [0, 1, bits - 64, bits - 1, bits + 1, bits + 64, 2 * bits, u32::MAX] {
        if prec == bits {
            continue;
        }
        for bit_length in [0, 1, bits / 2, bits] {
            let e: Result<BigUint, String> = Err(format!("BitsPrecisionMismatch({}, {})", prec, bits));
            check!(c, call(|| bits_result(Uint::<L>::try_random_bits_with_precision(&mut r, bit_length, prec), ub)), e.clone(); bit_length, prec);
            check!(c, call(|| bits_result(Int::<L>::try_random_bits_with_precision(&mut r, bit_length, prec), |v| ub(v.as_uint()))), e; bit_length, prec);
            must_panic!(c, call(|| Uint::<L>::random_bits_with_precision(&mut r, bit_length, prec)); bit_length, prec);
        }
    }
}

fn random_bits_boxed(c: &mut Ctx) {
    // every (bit_length, precision) with precision a multiple of 64 up to 320, plus odd precisions
    let precs: Vec<u32> = vec![0, 1, 63, 64, 65, 127, 128, 129, 192, 256, 257, 320];
    for &prec in &precs {
        let rounded = (prec.div_ceil(64) * 64).max(64); // a BoxedUint has at least one limb
        for bit_length in 0..=prec + 2 {
            if c.done() {
                return;
            }
            for (rng, r0) in rngs(c, 0, 1).into_iter().step_by(2) {
                let mut r = r0.clone();
                let got = call(|| { let v = BoxedUint::try_random_bits_with_precision(&mut r, bit_length, prec); let p = v.as_ref().map(|v| v.bits_precision()).unwrap_or(0); (bits_result(v, xb), p) });
                if bit_length > prec {
                    let e: Result<BigUint, String> = Err(format!("BitLengthTooLarge({}, {})", bit_length, prec));
                    check!(c, got, (e, 0); bit_length, prec, rng);
                    let mut r = r0.clone();
                    must_panic!(c, call(|| BoxedUint::random_bits_with_precision(&mut r, bit_length, prec)); bit_length, prec, rng);
                } else {
                    below!(c, got.clone().map(|v| v.0.unwrap_or_else(|_| pow2(bit_length))), pow2(bit_length); bit_length, prec, rng);
                    check!(c, got.map(|v| (v.0.is_ok(), v.1)), (true, rounded); bit_length, prec, rng);
                }
            }
        }
    }
}

// ---------------------------------------------------------------- plain Random, NonZero / Odd

fn random_plain<const L: usize>(c: &mut Ctx) {
    for (rng, r0) in rngs(c, 0, (c.iters / 8).max(16)) {
        if c.done() {
            return;
        }
        let mut r = r0.clone();
        let u = call(|| { let v = Uint::<L>::random(&mut r); (ub(&v), r.next_u64()) });
        no_panic!(c, u.clone(); rng);
        let mut r = r0.clone();
        let i = call(|| { let v = Int::<L>::random(&mut r); (ub(v.as_uint()), r.next_u64()) });
        // Int and Uint read the stream identically
        if let Ok(u) = u {
            check!(c, i, u.clone(); rng);
            let mut r = r0.clone();
            check!(c, call(|| { let v = Uint::<L>::try_random(&mut r).expect("infallible rng"); (ub(&v), r.next_u64()) }), u; rng);
        }
        let mut r = r0.clone();
        no_panic!(c, call(|| Limb::random(&mut r)); rng);
        // invariants of the wrappers (streams starting with zeros / even words included)
        let mut r = r0.clone();
        check!(c, call(|| NonZero::<Uint<L>>::random(&mut r)).map(|v| !ub(v.as_ref()).is_zero()), true; rng);
        let mut r = r0.clone();
        check!(c, call(|| NonZero::<Int<L>>::random(&mut r)).map(|v| !ib(v.as_ref()).is_zero()), true; rng);
        let mut r = r0.clone();
        check!(c, call(|| NonZero::<Limb>::random(&mut r)).map(|v| v.get().0 != 0), true; rng);
        let mut r = r0.clone();
        check!(c, call(|| Odd::<Uint<L>>::random(&mut r)).map(|v| ub(v.as_ref()).bit(0)), true; rng);
        for bit_length in [1u32, 2, 63, 64, 65, 64 * L as u32] {
            let mut r = r0.clone();
            let got = call(|| Odd::<BoxedUint>::random(&mut r, bit_length)).map(|v| (xb(v.as_ref()).bit(0), xb(v.as_ref()) < pow2(bit_length)));
            check!(c, got, (true, true); bit_length, rng);
        }
    }
}

pub fn cases() -> Vec<Case> {
    let mut v = Vec::new();
    ucases!(v, "random_mod/try_random_mod: value < modulus, Uint == BoxedUint on the same stream", random_mod_uint; 1, 2, 3, 4, 16);
    case!(v, "BoxedUint::random_mod: value < modulus, precision of the modulus (wider than needed too)", random_mod_boxed);
    case!(v, "Limb::random_mod/try_random_mod: value < modulus", random_mod_limb);
    ucases!(v, "random_bits/try_random_bits(_with_precision): value < 2^bit_length, errors, Uint == Int == BoxedUint on the same stream", random_bits_uint; 1, 2, 3, 4, 16);
    case!(v, "BoxedUint::try_random_bits_with_precision: every bit_length for several precisions", random_bits_boxed);
    ucases!(v, "Random::random (Uint, Int, Limb), NonZero/Odd random invariants", random_plain; 1, 2, 4, 16);
    v
}
