//! C13 — signed integers behave as two's-complement mathematical integers.
//!
//! Oracle: `BigInt` arithmetic. An `Int<L>` input is produced from a bit pattern (BigUint below
//! 2^BITS, generated from the limb alphabet) read in two's complement, so that MIN, MIN+1, -1, 0, 1,
//! MAX, MAX-1 all appear; the corpus adds sums/differences/products exactly at and next to the
//! boundaries of [MIN, MAX], a = -b, +-2^(BITS/2), magnitudes 2^(BITS-1) with either sign.
//! Wrapping forms: result mod 2^BITS read in two's complement. Checked/overflowing forms: overflow
//! exactly when the true result is outside [MIN, MAX] of the documented result type. Operators
//! (`+ - *` on `Int`) are documented by their `expect` messages to panic on overflow: asserted
//! with `must_panic!` exactly then. Division (C14) and shifts (C05) are not covered here.

use super::prelude::*;
use crypto_bigint::{
    Bounded, Checked, CheckedAdd, CheckedMul, CheckedSub, ConcatMixed, Constants, I64, I128, Wrapping, WrappingAdd,
    WrappingSub,
};
use num_bigint::Sign;
use num_traits::Signed;

// ---------------------------------------------------------------- corpus

fn big(x: &BigUint) -> BigInt {
    BigInt::from(x.clone())
}

/// two's complement reading of a bit pattern
fn tc(x: &BigUint, bits: u32) -> BigInt {
    wrap_signed(&big(x), bits)
}

/// magnitude of a BigInt
fn mag(x: &BigInt) -> BigUint {
    x.magnitude().clone()
}

fn neg_of(x: &BigInt) -> bool {
    x.sign() == Sign::Minus
}

/// The values the quantifier of C13 names, for a signed width (all inside [MIN, MAX]).
fn specials(bits: u32) -> Vec<BigInt> {
    let (mn, mx) = (smin(bits), smax(bits));
    let h = big(&pow2(bits / 2));
    let hh = big(&pow2(bits / 2 - 1));
    let q = big(&pow2(bits - 2));
    // floor(sqrt(2^(BITS-1))): squares next to the signed boundary
    let r = big(&isqrt(&pow2(bits - 1)));
    let mut v = vec![
        mn.clone(),
        &mn + 1,
        &mn + 2,
        BigInt::from(-2),
        BigInt::from(-1),
        BigInt::zero(),
        BigInt::one(),
        BigInt::from(2),
        BigInt::from(3),
        BigInt::from(-3),
        mx.clone(),
        &mx - 1,
        &mx - 2,
    ];
    for base in [h, hh, q, r, big(&pow2(63)), big(&pow2(64)), big(&pow2(32))] {
        for d in [-1i32, 0, 1] {
            v.push(&base + d);
            v.push(-(&base + d));
        }
    }
    // half of the extremes
    v.push(&mn / 2);
    v.push(&mn / 2 - 1);
    v.push(&mn / 2 + 1);
    v.push(&mx / 2);
    v.push(&mx / 2 + 1);
    v.retain(|x| fits_signed(x, bits));
    v.sort();
    v.dedup();
    v
}

/// MIN, MIN+1, MIN+2, -3..3, MAX-2, MAX-1, MAX
fn core(bits: u32) -> Vec<BigInt> {
    let (mn, mx) = (smin(bits), smax(bits));
    let mut v = vec![mn.clone(), &mn + 1, &mn + 2, mx.clone(), &mx - 1, &mx - 2];
    v.extend((-3..=3).map(BigInt::from));
    v
}

/// Unary corpus: bit patterns of the generic corpus read in two's complement + the special values.
fn sinputs1(c: &mut Ctx, l: usize) -> Vec<BigInt> {
    let bits = 64 * l as u32;
    let mut v: Vec<BigInt> = c.inputs1(l).iter().map(|x| tc(x, bits)).collect();
    v.extend(specials(bits));
    v
}

/// Binary corpus for `Int<l1> op Int<l2>` (or `Int<l1> op Uint<l2>` when `urhs`): returns
/// mathematical values (a, b) with a in the signed range of l1 limbs and b in the (un)signed
/// range of l2 limbs. `tb` is the bit width of the *result* type: sums, differences and products
/// exactly at / next to the boundaries of the signed `tb`-bit range are added.
fn spairs(c: &mut Ctx, l1: usize, l2: usize, tb: u32, urhs: bool) -> Vec<(BigInt, BigInt)> {
    let (b1, b2) = (64 * l1 as u32, 64 * l2 as u32);
    let in1 = |x: &BigInt| fits_signed(x, b1);
    let in2 = |x: &BigInt| if urhs { !neg_of(x) && fits(&mag(x), b2) } else { fits_signed(x, b2) };
    let rd2 = |x: &BigUint| if urhs { big(x) } else { tc(x, b2) };
    let mut v: Vec<(BigInt, BigInt)> = c.inputs2(l1, l2).iter().map(|(a, b)| (tc(a, b1), rd2(b))).collect();
    // special x special: the core values (MIN.., -1, 0, 1, .., MAX) against every special value, both
    // ways, plus each special value against itself and its negation
    let un2 = |x: &BigInt| if urhs && neg_of(x) { big(&wrap_unsigned(x, b2)) } else { x.clone() };
    let mut s1 = specials(b1);
    let mut s2: Vec<BigInt> = specials(b2).iter().map(un2).collect();
    if tb != b1 {
        s1.extend(specials(tb));
    }
    if tb != b2 {
        s2.extend(specials(tb));
    }
    let (k1, k2) = (core(b1), core(b2));
    let mut sp: Vec<(BigInt, BigInt)> = Vec::new();
    for a in &s1 {
        for b in &k2 {
            sp.push((a.clone(), un2(b)));
            sp.push((a.clone(), b.clone()));
        }
        sp.push((a.clone(), a.clone()));
        sp.push((a.clone(), -a));
    }
    for b in &s2 {
        for a in &k1 {
            sp.push((a.clone(), b.clone()));
        }
    }
    sp.retain(|(a, b)| in1(a) && in2(b));
    sp.sort();
    sp.dedup();
    v.extend(sp);
    let (tmin, tmax) = (smin(tb), smax(tb));
    let rounds = 64 + c.iters / 4;
    for round in 0..rounds {
        // a = -b, a = b, a = -b +- 1
        let a = tc(&c.rnd(l1), b1);
        for b in [-&a, a.clone(), -&a + 1, -&a - 1] {
            if in2(&b) {
                v.push((a.clone(), b));
            }
        }
        // a + b and a - b at MAX, MAX+1, MIN, MIN-1 of the target width
        for t in [tmax.clone(), &tmax + 1, tmin.clone(), &tmin - 1, &tmax - 1, &tmin + 1] {
            for b in [&t - &a, &a - &t] {
                if in2(&b) {
                    v.push((a.clone(), b));
                }
            }
        }
        // a * b at +-2^(tb-1), +-(2^(tb-1) - 1) and the nearest products on both sides
        let hb = pow2(tb - 1);
        let d = {
            let k = 1 + c.below(tb as usize - 1) as u32; // 1..tb-1 bits
            let x = match round % 4 {
                0 => pow2(k - 1),
                1 => mask(k),
                _ => (c.rnd(l1.max(l2)) & mask(k)) | pow2(k - 1),
            };
            if x.is_zero() { BigUint::one() } else { x }
        };
        let q = &hb / &d;
        let q2 = (&hb - 1u32) / &d;
        let mut qs = vec![q.clone(), &q + 1u32, q2.clone(), &q2 + 1u32];
        if !q.is_zero() {
            qs.push(&q - 1u32);
        }
        for qq in qs {
            for (sa, sb) in [(1, 1), (-1, 1), (1, -1), (-1, -1)] {
                let (x, y) = (big(&qq) * sa, big(&d) * sb);
                if in1(&x) && in2(&y) {
                    v.push((x.clone(), y.clone()));
                }
                if in1(&y) && in2(&x) {
                    v.push((y, x));
                }
            }
        }
    }
    // exact powers of two: 2^i * 2^(tb-1-i) with every sign combination
    for i in 0..tb {
        let (x, y) = (big(&pow2(i)), big(&pow2(tb - 1 - i)));
        for (sa, sb) in [(1, 1), (-1, 1), (1, -1), (-1, -1)] {
            let (x, y) = (&x * sa, &y * sb);
            if in1(&x) && in2(&y) {
                v.push((x, y));
            }
        }
    }
    v
}

fn chk(x: &BigInt, bits: u32) -> Option<BigInt> {
    if fits_signed(x, bits) { Some(x.clone()) } else { None }
}

fn some_i<const L: usize>(x: Option<Int<L>>) -> Option<BigInt> {
    x.map(|v| ib(&v))
}

// ---------------------------------------------------------------- add

fn add<const L: usize>(c: &mut Ctx) {
    let bits = 64 * L as u32;
    for (a, b) in spairs(c, L, L, bits, false) {
        if c.done() {
            return;
        }
        let (x, y) = (bi::<L>(&a), bi::<L>(&b));
        let s = &a + &b;
        let w = wrap_signed(&s, bits);
        let ovf = !fits_signed(&s, bits);
        let ck = chk(&s, bits);
        check!(c, call(|| copt(x.checked_add(&y))).map(some_i), ck.clone(); a, b);
        check!(c, call(|| x.overflowing_add(&y)).map(|(v, o)| (ib(&v), ccb(o))), (w.clone(), ovf); a, b);
        check!(c, call(|| x.wrapping_add(&y)).map(|v| ib(&v)), w.clone(); a, b);
        check!(c, call(|| opt(CheckedAdd::checked_add(&x, &y))).map(some_i), ck.clone(); a, b);
        check!(c, call(|| WrappingAdd::wrapping_add(&x, &y)).map(|v| ib(&v)), w.clone(); a, b);
        // operators: "attempted to add with overflow"
        if ovf {
            must_panic!(c, call(|| x + y); a, b);
            must_panic!(c, call(|| x + &y); a, b);
            must_panic!(c, call(|| { let mut t = x; t += y; t }); a, b);
            must_panic!(c, call(|| { let mut t = x; t += &y; t }); a, b);
        } else {
            check!(c, call(|| x + y).map(|v| ib(&v)), s.clone(); a, b);
            check!(c, call(|| x + &y).map(|v| ib(&v)), s.clone(); a, b);
            check!(c, call(|| { let mut t = x; t += y; t }).map(|v| ib(&v)), s.clone(); a, b);
            check!(c, call(|| { let mut t = x; t += &y; t }).map(|v| ib(&v)), s.clone(); a, b);
        }
        let (wx, wy) = (Wrapping(x), Wrapping(y));
        check!(c, call(|| wx + wy).map(|v| ib(&v.0)), w.clone(); a, b);
        check!(c, call(|| wx + &wy).map(|v| ib(&v.0)), w.clone(); a, b);
        check!(c, call(|| &wx + wy).map(|v| ib(&v.0)), w.clone(); a, b);
        check!(c, call(|| &wx + &wy).map(|v| ib(&v.0)), w.clone(); a, b);
        check!(c, call(|| { let mut t = wx; t += wy; t }).map(|v| ib(&v.0)), w.clone(); a, b);
        check!(c, call(|| { let mut t = wx; t += &wy; t }).map(|v| ib(&v.0)), w.clone(); a, b);
        let (cx, cy) = (Checked::new(x), Checked::new(y));
        check!(c, call(|| opt((cx + cy).0)).map(some_i), ck.clone(); a, b);
        check!(c, call(|| opt((cx + &cy).0)).map(some_i), ck.clone(); a, b);
        check!(c, call(|| opt((&cx + cy).0)).map(some_i), ck.clone(); a, b);
        check!(c, call(|| opt((&cx + &cy).0)).map(some_i), ck.clone(); a, b);
        check!(c, call(|| { let mut t = cx; t += cy; opt(t.0) }).map(some_i), ck.clone(); a, b);
        check!(c, call(|| { let mut t = cx; t += &cy; opt(t.0) }).map(some_i), ck.clone(); a, b);
        // a failed operand stays failed
        let none: Option<BigInt> = None;
        let bad = Checked(CtOption::new(x, Choice::from(0)));
        check!(c, call(|| opt((bad + cy).0)).map(some_i), none.clone(); a, b);
        check!(c, call(|| opt((cy + bad).0)).map(some_i), none; a, b);
    }
}

// ---------------------------------------------------------------- sub

fn sub<const L: usize>(c: &mut Ctx) {
    let bits = 64 * L as u32;
    for (a, b) in spairs(c, L, L, bits, false) {
        if c.done() {
            return;
        }
        let (x, y) = (bi::<L>(&a), bi::<L>(&b));
        let s = &a - &b;
        let w = wrap_signed(&s, bits);
        let ovf = !fits_signed(&s, bits);
        let ck = chk(&s, bits);
        check!(c, call(|| opt(CheckedSub::checked_sub(&x, &y))).map(some_i), ck.clone(); a, b);
        check!(c, call(|| WrappingSub::wrapping_sub(&x, &y)).map(|v| ib(&v)), w.clone(); a, b);
        // operators: "attempted to subtract with underflow"
        if ovf {
            must_panic!(c, call(|| x - y); a, b);
            must_panic!(c, call(|| x - &y); a, b);
        } else {
            check!(c, call(|| x - y).map(|v| ib(&v)), s.clone(); a, b);
            check!(c, call(|| x - &y).map(|v| ib(&v)), s.clone(); a, b);
        }
        let (wx, wy) = (Wrapping(x), Wrapping(y));
        check!(c, call(|| wx - wy).map(|v| ib(&v.0)), w.clone(); a, b);
        check!(c, call(|| wx - &wy).map(|v| ib(&v.0)), w.clone(); a, b);
        check!(c, call(|| &wx - wy).map(|v| ib(&v.0)), w.clone(); a, b);
        check!(c, call(|| &wx - &wy).map(|v| ib(&v.0)), w.clone(); a, b);
        check!(c, call(|| { let mut t = wx; t -= wy; t }).map(|v| ib(&v.0)), w.clone(); a, b);
        check!(c, call(|| { let mut t = wx; t -= &wy; t }).map(|v| ib(&v.0)), w.clone(); a, b);
        let (cx, cy) = (Checked::new(x), Checked::new(y));
        check!(c, call(|| opt((cx - cy).0)).map(some_i), ck.clone(); a, b);
        check!(c, call(|| opt((cx - &cy).0)).map(some_i), ck.clone(); a, b);
        check!(c, call(|| opt((&cx - cy).0)).map(some_i), ck.clone(); a, b);
        check!(c, call(|| opt((&cx - &cy).0)).map(some_i), ck.clone(); a, b);
        check!(c, call(|| { let mut t = cx; t -= cy; opt(t.0) }).map(some_i), ck.clone(); a, b);
        check!(c, call(|| { let mut t = cx; t -= &cy; opt(t.0) }).map(some_i), ck.clone(); a, b);
        let none: Option<BigInt> = None;
        let bad = Checked(CtOption::new(x, Choice::from(0)));
        check!(c, call(|| opt((bad - cy).0)).map(some_i), none.clone(); a, b);
        check!(c, call(|| opt((cy - bad).0)).map(some_i), none; a, b);
    }
}

// ---------------------------------------------------------------- neg

fn neg<const L: usize>(c: &mut Ctx) {
    let bits = 64 * L as u32;
    for a in sinputs1(c, L) {
        if c.done() {
            return;
        }
        let x = bi::<L>(&a);
        let n = -&a;
        let w = wrap_signed(&n, bits);
        let ovf = !fits_signed(&n, bits); // exactly a == MIN
        check!(c, call(|| x.overflowing_neg()).map(|(v, o)| (ib(&v), ccb(o))), (w.clone(), ovf); a);
        check!(c, call(|| x.wrapping_neg()).map(|v| ib(&v)), w.clone(); a);
        check!(c, call(|| copt(x.checked_neg())).map(some_i), chk(&n, bits); a);
        check!(c, call(|| x.wrapping_neg_if(ConstChoice::TRUE)).map(|v| ib(&v)), w.clone(); a);
        check!(c, call(|| x.wrapping_neg_if(ConstChoice::FALSE)).map(|v| ib(&v)), a.clone(); a);
    }
}

// ---------------------------------------------------------------- mul (Int x Int)

/// `negate` of the split forms: must be set for a negative product and clear for a positive one;
/// for a zero product the documentation allows either.
fn negate_ok(p: &BigInt, negate: bool) -> bool {
    match p.sign() {
        Sign::Minus => negate,
        Sign::Plus => !negate,
        Sign::NoSign => true,
    }
}

fn mul<const L: usize, const R: usize>(c: &mut Ctx) {
    let bits = 64 * L as u32;
    for (a, b) in spairs(c, L, R, bits, false) {
        if c.done() {
            return;
        }
        let (x, y) = (bi::<L>(&a), bi::<R>(&b));
        let p = &a * &b;
        let ck = chk(&p, bits);
        // split_mul: magnitude = lo + hi * 2^(64 L), lo: Uint<L>, hi: Uint<R>
        let m = mag(&p);
        let got = call(|| x.split_mul(&y)).map(|(lo, hi, n)| (ub(&lo), ub(&hi), ccb(n)));
        let negate = got.as_ref().map(|g| g.2).unwrap_or(false);
        check!(c, got.map(|g| (g.0, g.1)), (&m & mask(bits), &m >> (bits as usize)); a, b);
        let _ = holds!(c, negate_ok(&p, negate), "split_mul: negate == (product < 0) unless the product is zero"; a, b, negate);
        check!(c, call(|| opt(CheckedMul::checked_mul(&x, &y))).map(some_i), ck.clone(); a, b);
        // operators: "attempted to multiply with overflow"
        if ck.is_none() {
            must_panic!(c, call(|| x * y); a, b);
            must_panic!(c, call(|| x * &y); a, b);
            must_panic!(c, call(|| &x * y); a, b);
            must_panic!(c, call(|| &x * &y); a, b);
        } else {
            check!(c, call(|| x * y).map(|v| ib(&v)), p.clone(); a, b);
            check!(c, call(|| x * &y).map(|v| ib(&v)), p.clone(); a, b);
            check!(c, call(|| &x * y).map(|v| ib(&v)), p.clone(); a, b);
            check!(c, call(|| &x * &y).map(|v| ib(&v)), p.clone(); a, b);
        }
    }
}

fn checked_wrapper_mul<const L: usize>(c: &mut Ctx) {
    let bits = 64 * L as u32;
    for (a, b) in spairs(c, L, L, bits, false) {
        if c.done() {
            return;
        }
        let (x, y) = (bi::<L>(&a), bi::<L>(&b));
        let ck = chk(&(&a * &b), bits);
        let (cx, cy) = (Checked::new(x), Checked::new(y));
        check!(c, call(|| opt((cx * cy).0)).map(some_i), ck.clone(); a, b);
        check!(c, call(|| opt((cx * &cy).0)).map(some_i), ck.clone(); a, b);
        check!(c, call(|| opt((&cx * cy).0)).map(some_i), ck.clone(); a, b);
        check!(c, call(|| opt((&cx * &cy).0)).map(some_i), ck.clone(); a, b);
        check!(c, call(|| { let mut t = cx; t *= cy; opt(t.0) }).map(some_i), ck.clone(); a, b);
        check!(c, call(|| { let mut t = cx; t *= &cy; opt(t.0) }).map(some_i), ck.clone(); a, b);
        let none: Option<BigInt> = None;
        let bad = Checked(CtOption::new(x, Choice::from(0)));
        check!(c, call(|| opt((bad * cy).0)).map(some_i), none.clone(); a, b);
        check!(c, call(|| opt((cy * bad).0)).map(some_i), none; a, b);
    }
}

fn widening_mul<const L: usize, const R: usize, const W: usize>(c: &mut Ctx)
where
    Uint<L>: ConcatMixed<Uint<R>, MixedOutput = Uint<W>>,
{
    // boundaries of both operand widths are interesting for the magnitudes; the result always fits
    for (a, b) in spairs(c, L, R, 64 * L.max(R) as u32, false) {
        if c.done() {
            return;
        }
        let (x, y) = (bi::<L>(&a), bi::<R>(&b));
        check!(c, call(|| x.widening_mul(&y)).map(|v: Int<W>| ib(&v)), &a * &b; a, b);
    }
}

// ---------------------------------------------------------------- mul (Int x Uint)

fn mul_uint<const L: usize, const R: usize>(c: &mut Ctx) {
    let (lbits, rbits) = (64 * L as u32, 64 * R as u32);
    // products at the boundary of Int<L> (checked_mul) and of Int<R> (checked_mul_uint_right)
    let mut pairs = c.scaled(2, |c| spairs(c, L, R, lbits, true));
    if R != L {
        pairs.extend(c.scaled(2, |c| spairs(c, L, R, rbits, true)));
    }
    for (a, b) in pairs {
        if c.done() {
            return;
        }
        let b = mag(&b);
        let (x, y) = (bi::<L>(&a), bu::<R>(&b));
        let p = &a * big(&b);
        let m = mag(&p);
        // split_mul_uint: lo: Uint<L>, hi: Uint<R>
        let got = call(|| x.split_mul_uint(&y)).map(|(lo, hi, n)| (ub(&lo), ub(&hi), ccb(n)));
        let negate = got.as_ref().map(|g| g.2).unwrap_or(false);
        check!(c, got.map(|g| (g.0, g.1)), (&m & mask(lbits), &m >> (lbits as usize)); a, b);
        let _ = holds!(c, negate_ok(&p, negate), "split_mul_uint: negate == (product < 0) unless the product is zero"; a, b, negate);
        // split_mul_uint_right: lo: Uint<R>, hi: Uint<L>
        let got = call(|| x.split_mul_uint_right(&y)).map(|(lo, hi, n)| (ub(&lo), ub(&hi), ccb(n)));
        let negate = got.as_ref().map(|g| g.2).unwrap_or(false);
        check!(c, got.map(|g| (g.0, g.1)), (&m & mask(rbits), &m >> (rbits as usize)); a, b);
        let _ = holds!(c, negate_ok(&p, negate), "split_mul_uint_right: negate == (product < 0) unless the product is zero"; a, b, negate);
        // checked forms: result type Int<L> / Int<R>
        let ck = chk(&p, lbits);
        check!(c, call(|| opt(CheckedMul::checked_mul(&x, &y))).map(some_i), ck.clone(); a, b);
        check!(c, call(|| opt(x.checked_mul_uint_right(&y))).map(some_i), chk(&p, rbits); a, b);
        if ck.is_none() {
            must_panic!(c, call(|| x * y); a, b);
            must_panic!(c, call(|| x * &y); a, b);
            must_panic!(c, call(|| &x * y); a, b);
            must_panic!(c, call(|| &x * &y); a, b);
        } else {
            check!(c, call(|| x * y).map(|v| ib(&v)), p.clone(); a, b);
            check!(c, call(|| x * &y).map(|v| ib(&v)), p.clone(); a, b);
            check!(c, call(|| &x * y).map(|v| ib(&v)), p.clone(); a, b);
            check!(c, call(|| &x * &y).map(|v| ib(&v)), p.clone(); a, b);
        }
    }
}

fn widening_mul_uint<const L: usize, const R: usize, const W: usize>(c: &mut Ctx)
where
    Uint<L>: ConcatMixed<Uint<R>, MixedOutput = Uint<W>>,
{
    for (a, b) in spairs(c, L, R, 64 * L.max(R) as u32, true) {
        if c.done() {
            return;
        }
        let b = mag(&b);
        let (x, y) = (bi::<L>(&a), bu::<R>(&b));
        check!(c, call(|| x.widening_mul_uint(&y)).map(|v: Int<W>| ib(&v)), &a * big(&b); a, b);
    }
}

// ---------------------------------------------------------------- squaring (results are Uint)

fn square<const L: usize, const W: usize>(c: &mut Ctx)
where
    Uint<L>: ConcatMixed<Uint<L>, MixedOutput = Uint<W>>,
{
    let bits = 64 * L as u32;
    let mut vals = sinputs1(c, L);
    // squares next to 2^BITS (the bound of the Uint<L> result): +-floor(sqrt(2^BITS - 1)) and neighbours
    let r = big(&isqrt(&mask(bits)));
    for d in [-2i32, -1, 0, 1, 2] {
        vals.push(&r + d);
        vals.push(-(&r + d));
    }
    for a in vals {
        if c.done() {
            return;
        }
        let x = bi::<L>(&a);
        let sq = mag(&(&a * &a));
        let fit = fits(&sq, bits);
        check!(c, call(|| x.widening_square()).map(|v: Uint<W>| ub(&v)), sq.clone(); a);
        check!(c, call(|| copt(x.checked_square())).map(|v| v.map(|v| ub(&v))), if fit { Some(sq.clone()) } else { None }; a);
        check!(c, call(|| x.wrapping_square()).map(|v| ub(&v)), &sq & mask(bits); a);
        check!(c, call(|| x.saturating_square()).map(|v| ub(&v)), if fit { sq.clone() } else { mask(bits) }; a);
    }
}

// ---------------------------------------------------------------- sign / magnitude

fn sign<const L: usize>(c: &mut Ctx) {
    let bits = 64 * L as u32;
    for a in sinputs1(c, L) {
        if c.done() {
            return;
        }
        let x = bi::<L>(&a);
        let is_neg = neg_of(&a);
        check!(c, call(|| x.abs_sign()).map(|(m, s)| (ub(&m), ccb(s))), (mag(&a), is_neg); a);
        check!(c, call(|| x.abs()).map(|m| ub(&m)), mag(&a); a);
        check!(c, call(|| ccb(x.is_negative())), is_neg; a);
        check!(c, call(|| ccb(x.is_positive())), a.is_positive(); a);
        check!(c, call(|| ccb(x.is_min())), a == smin(bits); a);
        check!(c, call(|| ccb(x.is_max())), a == smax(bits); a);
        check!(c, call(|| Zero::is_zero(&x)), a.is_zero(); a);
        check!(c, call(|| One::is_one(&x)), a.is_one(); a);
    }
}

fn new_from_abs_sign<const L: usize>(c: &mut Ctx) {
    let bits = 64 * L as u32;
    let mut ms = c.inputs1(L);
    let h = pow2(bits - 1);
    ms.extend([BigUint::zero(), BigUint::one(), h.clone(), &h - 1u32, &h + 1u32, &h - 2u32, &h + 2u32, mask(bits), mask(bits) - 1u32]);
    ms.extend(specials(bits).iter().map(mag));
    for m in ms {
        if c.done() {
            return;
        }
        let u = bu::<L>(&m);
        for negative in [false, true] {
            let v = if negative { -big(&m) } else { big(&m) };
            let got = call(|| copt(Int::<L>::new_from_abs_sign(u, if negative { ConstChoice::TRUE } else { ConstChoice::FALSE }))).map(some_i);
            check!(c, got, chk(&v, bits); m, negative);
        }
    }
}

// ---------------------------------------------------------------- resize / From<&Int>

fn resize_to<const L: usize, const T: usize>(c: &mut Ctx, a: &BigInt, x: &Int<L>) {
    // T >= L: the value is preserved (sign extension). T < L: the low T limbs are kept
    // ("may lead to loss of information"), i.e. the value mod 2^(64 T) in two's complement.
    let exp = wrap_signed(a, 64 * T as u32);
    let t = T;
    check!(c, call(|| x.resize::<T>()).map(|v| ib(&v)), exp.clone(); a, t);
    check!(c, call(|| Int::<T>::from(x)).map(|v| ib(&v)), exp; a, t);
}

fn resize<const L: usize>(c: &mut Ctx) {
    let vals = c.scaled(4, |c| sinputs1(c, L));
    for a in vals {
        if c.done() {
            return;
        }
        let x = bi::<L>(&a);
        resize_to::<L, 1>(c, &a, &x);
        resize_to::<L, 2>(c, &a, &x);
        resize_to::<L, 3>(c, &a, &x);
        resize_to::<L, 4>(c, &a, &x);
        resize_to::<L, 5>(c, &a, &x);
        resize_to::<L, 8>(c, &a, &x);
        resize_to::<L, 16>(c, &a, &x);
        resize_to::<L, 17>(c, &a, &x);
    }
}

// ---------------------------------------------------------------- primitives

fn prim_values(c: &mut Ctx, bits: u32) -> Vec<i128> {
    let (mn, mx) = (i128::MIN >> (128 - bits), i128::MAX >> (128 - bits));
    let mut v = vec![mn, mn + 1, -2, -1, 0, 1, 2, mx - 1, mx, mn / 2, mx / 2, mx / 2 + 1];
    for k in [7u32, 8, 15, 16, 31, 32, 63, 64, 65, 126] {
        if k < bits - 1 {
            v.extend([1i128 << k, (1i128 << k) - 1, -(1i128 << k), -(1i128 << k) - 1]);
        }
    }
    for _ in 0..(c.iters / 8).max(16) {
        let x = ((c.word() as u128) << 64 | c.word() as u128) as i128;
        // sign-preserving reduction to the width, with a random bit length
        let sh = 128 - 1 - c.below(bits as usize) as u32;
        v.push(x >> sh);
    }
    v.retain(|x| *x >= mn && *x <= mx);
    v
}

fn from_prim<const L: usize>(c: &mut Ctx) {
    let bits = 64 * L as u32;
    for n in prim_values(c, 8) {
        let e = BigInt::from(n);
        let p = n as i8;
        check!(c, call(|| Int::<L>::from_i8(p)).map(|v| ib(&v)), e.clone(); n);
        check!(c, call(|| Int::<L>::from(p)).map(|v| ib(&v)), e; n);
    }
    for n in prim_values(c, 16) {
        let e = BigInt::from(n);
        let p = n as i16;
        check!(c, call(|| Int::<L>::from_i16(p)).map(|v| ib(&v)), e.clone(); n);
        check!(c, call(|| Int::<L>::from(p)).map(|v| ib(&v)), e; n);
    }
    for n in prim_values(c, 32) {
        let e = BigInt::from(n);
        let p = n as i32;
        check!(c, call(|| Int::<L>::from_i32(p)).map(|v| ib(&v)), e.clone(); n);
        check!(c, call(|| Int::<L>::from(p)).map(|v| ib(&v)), e; n);
    }
    for n in prim_values(c, 64) {
        let e = BigInt::from(n);
        let p = n as i64;
        check!(c, call(|| Int::<L>::from_i64(p)).map(|v| ib(&v)), e.clone(); n);
        check!(c, call(|| Int::<L>::from(p)).map(|v| ib(&v)), e; n);
    }
    for n in prim_values(c, 128) {
        let e = BigInt::from(n);
        // an i128 that does not fit Int<1> has no correct image; `From<i128>` additionally
        // requires two limbs ("not enough limbs")
        if !fits_signed(&e, bits) {
            continue;
        }
        check!(c, call(|| Int::<L>::from_i128(n)).map(|v| ib(&v)), e.clone(); n);
        if L >= 2 {
            check!(c, call(|| Int::<L>::from(n)).map(|v| ib(&v)), e; n);
        }
    }
}

fn into_prim(c: &mut Ctx) {
    for x in c.inputs1(1) {
        let a = tc(&x, 64);
        let v: I64 = bi::<1>(&a);
        check!(c, call(|| i64::from(v)).map(BigInt::from), a.clone(); a);
        // and back
        check!(c, call(|| I64::from_i64(i64::from(v))).map(|r| ib(&r)), a.clone(); a);
    }
    for x in c.inputs1(2) {
        let a = tc(&x, 128);
        let v: I128 = bi::<2>(&a);
        check!(c, call(|| i128::from(v)).map(BigInt::from), a.clone(); a);
        check!(c, call(|| I128::from_i128(i128::from(v))).map(|r| ib(&r)), a.clone(); a);
    }
}

// ---------------------------------------------------------------- reinterpretation, words, constants

fn reinterpret<const L: usize>(c: &mut Ctx) {
    let bits = 64 * L as u32;
    for p in c.inputs1(L) {
        if c.done() {
            return;
        }
        // p is the bit pattern, a its two's complement value
        let a = tc(&p, bits);
        let u = bu::<L>(&p);
        let words = u.to_words();
        let x = Int::<L>::from_words(words);
        check!(c, call(|| ib(&u.as_int())), a.clone(); p);
        check!(c, call(|| ub(x.as_uint())), p.clone(); p);
        check!(c, call(|| ib(&Int::<L>::from_words(words))), a.clone(); p);
        check!(c, call(|| words_to_big(&x.to_words())), p.clone(); p);
        check!(c, call(|| words_to_big(x.as_words())), p.clone(); p);
        check!(c, call(|| ib(&Int::<L>::new(x.to_limbs()))), a.clone(); p);
        check!(c, call(|| ib(&Int::<L>::new(*x.as_limbs()))), a.clone(); p);
        // the value defined by the words is the two's complement value: sign bit = top bit of the top word
        check!(c, call(|| ccb(x.is_negative())), words[L - 1] >> 63 == 1; p);
    }
}

fn constants<const L: usize>(c: &mut Ctx) {
    let bits = 64 * L as u32;
    let l = L;
    check!(c, call(|| ib(&Int::<L>::MIN)), smin(bits); l);
    check!(c, call(|| ib(&Int::<L>::MAX)), smax(bits); l);
    check!(c, call(|| ib(&Int::<L>::ZERO)), BigInt::zero(); l);
    check!(c, call(|| ib(&Int::<L>::ONE)), BigInt::one(); l);
    check!(c, call(|| ib(&Int::<L>::MINUS_ONE)), BigInt::from(-1); l);
    check!(c, call(|| ib(&Int::<L>::SIGN_MASK)), smin(bits); l);
    check!(c, call(|| ib(&Int::<L>::FULL_MASK)), BigInt::from(-1); l);
    check!(c, call(|| ib(&Int::<L>::default())), BigInt::zero(); l);
    check!(c, call(|| ib(&<Int<L> as Zero>::zero())), BigInt::zero(); l);
    check!(c, call(|| ib(&<Int<L> as One>::one())), BigInt::one(); l);
    check!(c, call(|| ib(&<Int<L> as Constants>::ONE)), BigInt::one(); l);
    check!(c, call(|| ib(&<Int<L> as Constants>::MAX)), smax(bits); l);
    check!(c, call(|| Int::<L>::BITS), bits; l);
    check!(c, call(|| <Int<L> as Bounded>::BITS), bits; l);
    check!(c, call(|| Int::<L>::BYTES), 8 * L; l);
    check!(c, call(|| Int::<L>::LIMBS), L; l);
    // MIN - 1 and MAX + 1 are not representable; MIN = -MAX - 1
    let none: Option<BigInt> = None;
    check!(c, call(|| copt(Int::<L>::MAX.checked_add(&Int::ONE))).map(some_i), none.clone(); l);
    check!(c, call(|| copt(Int::<L>::MIN.checked_add(&Int::MINUS_ONE))).map(some_i), none.clone(); l);
    check!(c, call(|| copt(Int::<L>::MIN.checked_neg())).map(some_i), none; l);
    check!(c, call(|| copt(Int::<L>::MAX.checked_neg())).map(some_i), Some(smin(bits) + 1); l);
}

// ---------------------------------------------------------------- table

macro_rules! ii2 {
    ($v:ident, $name:expr, $f:ident; $(($a:literal, $b:literal)),+ $(,)?) => {
        $( $v.push(Case::new(format!("I{}::{} I{}xI{}", 64 * $a, $name, 64 * $a, 64 * $b), $f::<$a, $b>)); )+
    };
}
macro_rules! ii3 {
    ($v:ident, $name:expr, $rhs:expr, $f:ident; $(($a:literal, $b:literal)),+ $(,)?) => {
        $( $v.push(Case::new(format!("I{}::{} I{}x{}{}", 64 * $a, $name, 64 * $a, $rhs, 64 * $b), $f::<$a, $b, { $a + $b }>)); )+
    };
}
macro_rules! isq {
    ($v:ident, $name:expr, $f:ident; $($a:literal),+ $(,)?) => {
        $( $v.push(Case::new(format!("I{}::{}", 64 * $a, $name), $f::<$a, { 2 * $a }>)); )+
    };
}

pub fn cases() -> Vec<Case> {
    let mut v = Vec::new();
    icases!(v, "checked_add/overflowing_add/wrapping_add/CheckedAdd/WrappingAdd/+/+=/Wrapping/Checked", add; 1, 2, 3, 4, 8, 16);
    icases!(v, "CheckedSub/WrappingSub/-/Wrapping -/Checked -", sub; 1, 2, 3, 4, 8, 16);
    icases!(v, "overflowing_neg/wrapping_neg/checked_neg/wrapping_neg_if", neg; 1, 2, 3, 4, 8, 16);
    ii2!(v, "split_mul/CheckedMul/*", mul; (1, 1), (2, 2), (3, 3), (4, 4), (8, 8), (16, 16), (1, 2), (2, 1), (2, 4), (4, 2), (3, 1), (1, 4), (4, 3), (4, 16), (16, 4), (16, 1));
    icases!(v, "Checked<Int> * and *=", checked_wrapper_mul; 1, 2, 3, 4, 16);
    ii3!(v, "widening_mul", "I", widening_mul; (1, 1), (2, 2), (3, 3), (4, 4), (8, 8), (16, 16), (1, 2), (2, 1), (1, 3), (3, 1), (2, 3), (3, 2), (4, 1), (1, 4), (4, 12), (12, 4), (15, 1));
    icases2!(v, "split_mul_uint(_right)/CheckedMul<Uint>/checked_mul_uint_right/* Uint", mul_uint; (1, 1), (2, 2), (3, 3), (4, 4), (16, 16), (1, 2), (2, 1), (2, 4), (4, 2), (3, 1), (1, 4), (4, 3), (4, 16), (16, 4), (16, 1), (1, 16));
    ii3!(v, "widening_mul_uint", "U", widening_mul_uint; (1, 1), (2, 2), (3, 3), (4, 4), (8, 8), (16, 16), (1, 2), (2, 1), (1, 3), (3, 1), (2, 3), (3, 2), (4, 1), (1, 4), (4, 12), (12, 4), (1, 15));
    isq!(v, "widening_square/checked_square/wrapping_square/saturating_square", square; 1, 2, 3, 4, 8, 16);
    icases!(v, "abs_sign/abs/is_negative/is_positive/is_min/is_max/is_zero/is_one", sign; 1, 2, 3, 4, 8, 16);
    icases!(v, "new_from_abs_sign", new_from_abs_sign; 1, 2, 3, 4, 8, 16);
    icases!(v, "resize/From<&Int> to 1,2,3,4,5,8,16,17 limbs", resize; 1, 2, 3, 4, 8, 16);
    icases!(v, "from_i8..from_i128/From<i8..i128>", from_prim; 1, 2, 3, 4, 16);
    case!(v, "i64::from(I64)/i128::from(I128)", into_prim);
    icases!(v, "as_int/as_uint/from_words/to_words/as_words/new/to_limbs", reinterpret; 1, 2, 3, 4, 16);
    icases!(v, "constants MIN/MAX/ZERO/ONE/MINUS_ONE/Default/Zero/One/Constants/Bounded", constants; 1, 2, 3, 4, 8, 16);
    v
}
