//! C10 — modular inversion and gcd: invertibility decided exactly, results exact.
//!
//! Oracle for inversion: `inv_mod_oracle(a, m)` (extended Euclid on BigInt): none iff gcd(a, m) != 1
//! (or m = 0); for m >= 2 the unique x in [0, m) with a*x = 1 (mod m). For m = 1 the statement
//! only requires some(_) (every x is congruent), so only `is_some` is compared there.
//! Oracle for gcd: `num_integer::Integer::gcd` on the absolute values (gcd(0, 0) = 0).
//!
//! The documentation of the inversion functions does not restrict `self` to `self < modulus`, so
//! every value of the width is used. (MontyForm inv / invert belong to C08.)

use super::prelude::*;
use crypto_bigint::modular::SafeGcdInverter;
use crypto_bigint::{Gcd, InvMod, Inverter, PrecomputeInverter};
use num_integer::Integer;

/// `gcases!(v, "U", "inv_mod", f; (4, 6))` pushes `U256::inv_mod => f::<4, 6>`; the second number is
/// the unsaturated limb count of the safegcd inverter of that width (`(bits + 64).div_ceil(62)`),
/// for which `Odd<Uint<L>>: PrecomputeInverter` is implemented by macro.
macro_rules! gcases {
    ($v:ident, $pre:literal, $name:expr, $f:ident; $(($l:literal, $u:literal)),+ $(,)?) => {
        $( $v.push(Case::new(format!("{}{}::{}", $pre, 64 * $l, $name), $f::<$l, $u>)); )+
    };
}

/// Inversion check: `got` is `Result<Option<BigUint>, String>`; inputs `a`, `m` (+ more).
macro_rules! inv_check {
    ($c:expr, $got:expr; $a:ident, $m:ident $(, $rest:ident)*) => {{
        let got__: Result<Option<BigUint>, String> = $got;
        if $m.is_one() {
            // gcd(a, 1) = 1: must be some; any value is congruent to the inverse
            check!($c, got__.map(|o| o.is_some()), true; $a, $m $(, $rest)*)
        } else {
            check!($c, got__, inv_mod_oracle(&$a, &$m); $a, $m $(, $rest)*)
        }
    }};
}

// ---------------------------------------------------------------- corpora

/// Known primes below 2^bits.
fn known_primes(bits: u32) -> Vec<BigUint> {
    let mut v: Vec<BigUint> = [3u64, 5, 7, 11, 13, 65537, 4294967291].iter().map(|&p| BigUint::from(p)).collect();
    // 2^e - d
    for (e, d) in [(61u32, 1u32), (64, 59), (89, 1), (127, 1), (128, 159), (128, 173), (192, 237), (255, 19), (256, 189), (521, 1), (607, 1)] {
        v.push(pow2(e) - d);
    }
    v.retain(|p| p.bits() <= bits as u64);
    v
}

/// A random odd value of the width.
fn rnd_odd(c: &mut Ctx, l: usize) -> BigUint {
    c.rnd(l) | BigUint::one()
}

/// Residues for the modulus `m` (values of the whole width, also >= m): 0, 1, 2, m-1, m, m+1, 2m+-1,
/// MAX, halves; values sharing exactly the factor 2 / exactly the odd part / a small prime factor
/// with m; values with many trailing zeros; powers of two; random ones below m and of full width.
/// `thin` keeps about a third of the fixed ones (rotating with `salt`).
fn push_residues(c: &mut Ctx, out: &mut Vec<(BigUint, BigUint)>, m: &BigUint, l: usize, n_rand: usize, thin: bool, salt: usize) {
    let bits = 64 * l as u32;
    let max = mask(bits);
    let mut r: Vec<BigUint> = vec![
        BigUint::zero(),
        BigUint::one(),
        BigUint::from(2u8),
        max.clone(),
        &max - 1u32,
        m.clone(),
        m + 1u32,
        m >> 1,
        (m >> 1) + 1u32,
        (m << 1) + 1u32,
    ];
    if !m.is_zero() {
        r.push(m - 1u32);
        r.push((m << 1) - 1u32);
        r.push((m - 1u32) >> 1);
    }
    if m.bits() >= 2 {
        r.push(m - 2u32);
    }
    if thin {
        let mut i = salt;
        r.retain(|_| {
            i += 1;
            i % 3 == 0
        });
    }
    // factor sharing
    let mut f: Vec<BigUint> = Vec::new();
    if !m.is_zero() {
        let tz = m.trailing_zeros().unwrap_or(0) as u32;
        let s = m >> tz;
        if tz > 0 {
            // only the factor 2 in common (up to chance)
            f.push((rnd_odd(c, l) << 1u32) & &max);
            f.push(BigUint::from(2u8));
            // odd multiple of 2^tz, of 2^(tz+j)
            f.push((rnd_odd(c, l) << tz) & &max);
            f.push((rnd_odd(c, l) << (tz + 1 + c.below(8) as u32)) & &max);
            if !s.is_one() {
                // only the odd part in common
                f.push(s.clone());
                f.push((&s * (rnd_odd(c, l) >> (s.bits() as u32).min(bits - 1))) & &max);
            }
        }
        for p in [3u32, 5, 7, 11, 13] {
            if (m % p).is_zero() {
                f.push((c.rnd(l) >> 4u32) * p);
            }
        }
    }
    // many trailing zeros (long jump steps), powers of two
    let z = c.below(bits as usize) as u32;
    f.push((rnd_odd(c, l) << z) & &max);
    f.push(pow2(c.below(bits as usize) as u32));
    f.push(pow2(bits - 1));
    if thin {
        let mut i = salt;
        f.retain(|_| {
            i += 1;
            i % 2 == 0
        });
    }
    r.extend(f);
    for i in 0..n_rand {
        if i % 2 == 0 && !m.is_zero() {
            r.push(c.rnd_below(m));
        } else {
            r.push(c.rnd(l));
        }
    }
    for a in r {
        out.push((a & &max, m.clone()));
    }
}

/// (a, m) pairs for the inversion cases. `even = false`: odd moduli only (primes, odd composites
/// with known factors, 1, 2^BITS - 1, edge values forced odd). `even = true`: additionally 2^k and
/// s * 2^k for every k in 0..BITS, generic even moduli, and m = 0.
pub fn inv_pairs(c: &mut Ctx, l: usize, even: bool) -> Vec<(BigUint, BigUint)> {
    let bits = 64 * l as u32;
    let max = mask(bits);
    // wide types and heavily scaled budgets (BoxedUint precisions sharing a small budget)
    let thin = l > 4 || c.cap < 512;
    // U2048: a token corpus only (one ct inversion costs several ms)
    let tiny = l > 16;
    let mut v: Vec<(BigUint, BigUint)> = Vec::new();
    let primes = known_primes(bits);

    // odd moduli
    let mut ms: Vec<BigUint> = vec![BigUint::one(), max.clone(), pow2(bits - 1) + 1u32, pow2(bits - 1) - 1u32, pow2(bits / 2) + 1u32];
    ms.extend(primes.iter().cloned());
    // 3^j, largest fitting
    let mut t = BigUint::from(3u8);
    while (&t * 3u32) <= max {
        t *= 3u32;
    }
    ms.push(t);
    if tiny {
        ms = vec![BigUint::one(), max.clone(), pow2(255) - 19u32, pow2(607) - 1u32, ms.pop().unwrap()];
    }
    let n_m = if tiny { 3 } else { (c.cap / 64).clamp(8, 64) };
    ms.extend(c.moduli(l, true, n_m));
    let n_rand = if thin { 2 } else { 4 };
    for (i, m) in ms.iter().enumerate() {
        push_residues(c, &mut v, m, l, n_rand, thin, i);
    }

    // odd composites with known factors: a = p, q, multiples of p and of q, p + q, (p-1)(q-1)
    let n_sp = if tiny { 3 } else { (c.cap / 32).clamp(8, 128) };
    for _ in 0..n_sp {
        let p = primes[c.below(primes.len())].clone();
        let q = primes[c.below(primes.len())].clone();
        let m = &p * &q;
        if m > max {
            continue;
        }
        let free = bits - m.bits() as u32;
        let r1 = c.rnd(l) >> (bits - q.bits() as u32 - free).min(bits - 1);
        let r2 = c.rnd(l) >> (bits - p.bits() as u32 - free).min(bits - 1);
        for a in [p.clone(), q.clone(), (&p * r1) & &max, (&q * r2) & &max, &p + &q, (&p - 1u32) * (&q - 1u32), c.rnd_below(&m)] {
            v.push((a, m.clone()));
        }
    }

    if even {
        // 2^k and s * 2^k for every k (a stride coprime to the shape periods when the budget is
        // below BITS / 2 pairs, i.e. U1024 with a reduced --cap; U2048: every 97th)
        let want = if tiny { 97 } else { (bits as usize / (2 * c.cap.max(1))).max(1) };
        let kstep = [1usize, 7, 11, 13, 17, 19, 23, 29, 31, 37, 97].into_iter().find(|&s| s >= want).unwrap_or(97);
        let per_k = (c.cap / bits as usize).clamp(1, 12);
        for k in (0..bits).step_by(kstep) {
            let sbits = bits - k;
            let s = match k % 5 {
                0 => mask(sbits),
                1 => (c.rnd(l) >> k) | BigUint::one(),
                2 => primes.iter().filter(|p| p.bits() <= sbits as u64).next_back().cloned().unwrap_or_else(BigUint::one),
                3 => (c.rnd(l) >> (k + c.below(sbits as usize) as u32)) | BigUint::one(),
                _ => BigUint::from(3u8) & mask(sbits),
            };
            let m = &s << k;
            let p2 = pow2(k);
            let shapes = 12;
            for i in 0..per_k {
                let (a, md) = match (k as usize + i * 5) % shapes {
                    0 => (rnd_odd(c, l), &m),
                    1 => ((rnd_odd(c, l) << 1u32) & &max, &m),
                    2 => (s.clone(), &m),
                    3 => ((&s * (rnd_odd(c, l) >> (bits - k).min(bits - 1))) & &max, &m),
                    4 => (c.rnd_below(&m), &m),
                    5 => (&m - 1u32, &m),
                    6 => ((&m + 1u32) & &max, &m),
                    7 => (rnd_odd(c, l), &p2),
                    8 => (max.clone(), &p2),
                    9 => (&p2 - 1u32, &p2),
                    10 => ((&p2 + 1u32) & &max, &p2),
                    _ => (c.rnd(l), &p2),
                };
                v.push((a, md.clone()));
            }
        }
        // generic even / arbitrary moduli
        for (i, m) in c.moduli(l, false, n_m).iter().enumerate() {
            push_residues(c, &mut v, m, l, n_rand, thin, i);
        }
        // m = 0: none, without panicking
        let zero = BigUint::zero();
        push_residues(c, &mut v, &zero, l, 2, thin, 0);
    }

    // the generic pair corpus (random pairs are almost always coprime: the main path)
    for (i, (a, m)) in c.scaled(4, |c| c.inputs2(l, l)).into_iter().enumerate() {
        if tiny && i % 4 != 0 {
            continue;
        }
        let m = if even { m } else { m | BigUint::one() };
        v.push((a, m));
    }
    v
}

/// (a, b) pairs for gcd: the generic pair corpus plus zeros, equal values, powers of two, pairs
/// with a planted common factor, values with many trailing zeros, consecutive Fibonacci numbers,
/// primes and their multiples.
pub fn gcd_pairs(c: &mut Ctx, l: usize) -> Vec<(BigUint, BigUint)> {
    let bits = 64 * l as u32;
    let max = mask(bits);
    let mut v = c.scaled(2, |c| c.inputs2(l, l));
    let z = BigUint::zero();
    let one = BigUint::one();
    let top = pow2(bits - 1);
    for (a, b) in [
        (&z, &z),
        (&z, &one),
        (&one, &z),
        (&z, &max),
        (&max, &z),
        (&max, &max),
        (&max, &(&max - 1u32)),
        (&top, &top),
        (&top, &max),
        (&top, &z),
        (&z, &top),
        (&top, &(&top - 1u32)),
        (&(&max - 1u32), &top),
    ] {
        v.push((a.clone(), b.clone()));
    }
    // powers of two
    let step = (bits as usize * 4 / c.cap.max(1)).max(1);
    for i in (0..bits).step_by(step) {
        let j = c.below(bits as usize) as u32;
        v.push((pow2(i), pow2(j)));
        v.push(((rnd_odd(c, l) << i) & &max, (rnd_odd(c, l) << j) & &max));
        v.push(match (i as usize / step) % 5 {
            0 => (pow2(i), pow2(i)),
            1 => (pow2(i), z.clone()),
            2 => (z.clone(), pow2(i)),
            3 => (pow2(i), c.rnd(l)),
            _ => ((rnd_odd(c, l) << i) & &max, pow2(j)),
        });
    }
    // planted common factor
    let primes = known_primes(bits);
    for round in 0..(c.iters / 4).max(16) {
        let gb = 1 + c.below(bits as usize - 1) as u32;
        let mut g = c.rnd(l) >> (bits - gb);
        if g.is_zero() {
            g = BigUint::one();
        }
        match round % 4 {
            0 => g |= BigUint::one(),
            1 => g = (g << (c.below(gb as usize) as u32)) & mask(gb),
            2 => g = primes[c.below(primes.len())].clone(),
            _ => {}
        }
        if g.is_zero() {
            g = pow2(gb - 1);
        }
        let free = bits - g.bits() as u32;
        let cof = |c: &mut Ctx| if free == 0 { BigUint::one() } else { c.rnd(l) >> (bits - free) };
        let (x, y) = (cof(c), cof(c));
        v.push((&g * &x, &g * &y));
        v.push((g.clone(), &g * &y));
        v.push((&g * &x, g.clone()));
        v.push((&g * &x, &g * &x));
        v.push((&g * &x, &g * (&x + 1u32) & &max));
    }
    // Fibonacci neighbours (slow Euclid; many small quotients)
    let (mut f0, mut f1) = (BigUint::one(), BigUint::one());
    let mut fibs = Vec::new();
    while f1 <= max {
        fibs.push((f1.clone(), f0.clone()));
        let n = &f0 + &f1;
        f0 = f1;
        f1 = n;
    }
    let keep = if l > 4 { 8 } else { (c.cap / 32).clamp(4, 64) };
    let fl = fibs.len();
    for (i, (a, b)) in fibs.into_iter().enumerate() {
        if i + keep >= fl || i % 16 == 0 {
            v.push((b.clone(), a.clone()));
            v.push((a, b));
        }
    }
    // random equal / shifted
    for _ in 0..(c.iters / 16).max(4) {
        let r = c.rnd(l);
        v.push((r.clone(), r.clone()));
        let s = c.below(bits as usize) as u32;
        v.push((r.clone(), &r >> s));
        v.push((r.clone(), (&r << s) & &max));
    }
    v
}

/// Budget divisor of a width (safegcd runs (49 bits + 80) / 17 jumps of 62 divsteps).
fn div_for(l: usize) -> usize {
    match l {
        0..=4 => 1,
        5..=16 => 8,
        _ => 64,
    }
}

/// A signed reading of an unsigned corpus value: two's complement reinterpretation, or the negated
/// low part.
fn signed_view(a: &BigUint, bits: u32, i: usize) -> BigInt {
    match i % 3 {
        0 => wrap_signed(&BigInt::from(a.clone()), bits),
        1 => -BigInt::from(a & mask(bits - 1)),
        _ => BigInt::from(a & mask(bits - 1)),
    }
}

// ---------------------------------------------------------------- Uint inversion

fn inv_odd_mod<const L: usize, const U: usize>(c: &mut Ctx)
where
    Odd<Uint<L>>: PrecomputeInverter<Inverter = SafeGcdInverter<L, U>, Output = Uint<L>>,
{
    for (a, m) in c.scaled(div_for(L), |c| inv_pairs(c, L, false)) {
        if c.done() {
            return;
        }
        let (x, y) = (bu::<L>(&a), oddu::<L>(&m));
        inv_check!(c, call(|| copt(x.inv_odd_mod(&y))).map(|o| o.map(|r| ub(&r))); a, m);
    }
}

fn inv_mod<const L: usize, const U: usize>(c: &mut Ctx)
where
    Odd<Uint<L>>: PrecomputeInverter<Inverter = SafeGcdInverter<L, U>, Output = Uint<L>>,
{
    for (i, (a, m)) in c.scaled(div_for(L), |c| inv_pairs(c, L, true)).into_iter().enumerate() {
        if c.done() {
            return;
        }
        if L > 16 && c.cap < 2048 && i % 2 != 0 {
            continue; // U2048 with a reduced --cap
        }
        let (x, y) = (bu::<L>(&a), bu::<L>(&m));
        inv_check!(c, call(|| copt(x.inv_mod(&y))).map(|o| o.map(|r| ub(&r))); a, m);
        if L <= 4 || i % 4 == 0 {
            inv_check!(c, call(|| opt(<Uint<L> as InvMod>::inv_mod(&x, &y))).map(|o| o.map(|r| ub(&r))); a, m);
        }
    }
}

fn inverter<const L: usize, const U: usize>(c: &mut Ctx)
where
    Odd<Uint<L>>: PrecomputeInverter<Inverter = SafeGcdInverter<L, U>, Output = Uint<L>>,
{
    for (a, m) in c.scaled(div_for(L), |c| inv_pairs(c, L, false)) {
        if c.done() {
            return;
        }
        let (x, y) = (bu::<L>(&a), oddu::<L>(&m));
        let inv = match call(|| y.precompute_inverter()) {
            Ok(i) => i,
            Err(p) => {
                no_panic!(c, Err::<(), String>(p); m);
                continue;
            }
        };
        let ct = call(|| opt(inv.invert(&x)));
        let vt = call(|| opt(inv.invert_vartime(&x)));
        let same = match (&ct, &vt) {
            (Ok(p), Ok(q)) => p == q,
            _ => true,
        };
        inv_check!(c, ct.map(|o| o.map(|r| ub(&r))); a, m);
        inv_check!(c, vt.map(|o| o.map(|r| ub(&r))); a, m);
        let _ = holds!(c, same, "invert == invert_vartime"; a, m);
    }
}

/// k values for the mod 2^k forms: all of 0..=bits, or the limb boundaries and a few others
fn ks_for(c: &mut Ctx, bits: u32, full: bool) -> Vec<u32> {
    if full {
        return (0..=bits).collect();
    }
    let mut ks = vec![0, 1, 2, 3, 61, 62, 63, bits - 1, bits, bits / 2];
    for i in 1..bits / 64 {
        ks.extend([64 * i - 1, 64 * i, 64 * i + 1]);
    }
    for _ in 0..8 {
        ks.push(c.below(bits as usize + 1) as u32);
    }
    ks.retain(|&k| k <= bits);
    ks
}

/// values for the mod 2^k forms (odd and even)
fn mod2k_values(c: &mut Ctx, l: usize, n: usize) -> Vec<BigUint> {
    let bits = 64 * l as u32;
    let max = mask(bits);
    let mut v = vec![max.clone(), rnd_odd(c, l), c.rnd(l) << 1u32 & &max, BigUint::one(), BigUint::from(3u8), pow2(bits - 1) + 1u32];
    v.extend([BigUint::zero(), BigUint::from(2u8), &max - 1u32, pow2(bits - 1), pow2(bits / 2) + 1u32, pow2(bits / 2) - 1u32, &max / 3u32]);
    for p in known_primes(bits) {
        v.push(p);
    }
    v.extend(c.edges(l, n / 2));
    while v.len() < n {
        let z = c.below(bits as usize) as u32;
        v.push(match v.len() % 3 {
            0 => rnd_odd(c, l),
            1 => c.rnd(l),
            _ => (rnd_odd(c, l) << z) & &max,
        });
    }
    v.truncate(n.max(8));
    v
}

fn inv_mod2k<const L: usize>(c: &mut Ctx) {
    let bits = 64 * L as u32;
    let n_full = if L > 4 { 2 } else { (c.cap / bits as usize).clamp(3, 64) };
    let n = if L > 4 { 24 } else { (c.cap / 16).max(n_full) };
    for (i, a) in mod2k_values(c, L, n).into_iter().enumerate() {
        let x = bu::<L>(&a);
        for k in ks_for(c, bits, i < n_full) {
            if c.done() {
                return;
            }
            let m = pow2(k);
            let ct = call(|| copt(x.inv_mod2k(k)));
            let vt = call(|| copt(x.inv_mod2k_vartime(k)));
            let same = match (&ct, &vt) {
                (Ok(p), Ok(q)) => p == q,
                _ => true,
            };
            inv_check!(c, ct.map(|o| o.map(|r| ub(&r))); a, m, k);
            inv_check!(c, vt.map(|o| o.map(|r| ub(&r))); a, m, k);
            let _ = holds!(c, same, "inv_mod2k == inv_mod2k_vartime"; a, k);
        }
    }
}

// ---------------------------------------------------------------- Int inversion

fn int_inv_odd_mod<const L: usize, const U: usize>(c: &mut Ctx)
where
    Odd<Uint<L>>: PrecomputeInverter<Inverter = SafeGcdInverter<L, U>, Output = Uint<L>>,
{
    let bits = 64 * L as u32;
    let mut pairs = c.scaled(div_for(L), |c| inv_pairs(c, L, false));
    // MIN against a few moduli
    let ms: Vec<BigUint> = pairs.iter().step_by(97).map(|p| p.1.clone()).collect();
    pairs.extend(ms.into_iter().map(|m| (pow2(bits - 1), m)));
    for (i, (au, m)) in pairs.into_iter().enumerate() {
        if c.done() {
            return;
        }
        let a = signed_view(&au, bits, if au == pow2(bits - 1) { 0 } else { i });
        let ar = mod_pos(&a, &m);
        let (x, y) = (bi::<L>(&a), oddu::<L>(&m));
        let got = call(|| opt(x.inv_odd_mod(&y))).map(|o| o.map(|r| ub(&r)));
        if m.is_one() {
            check!(c, got.map(|o| o.is_some()), true; a, m);
        } else {
            check!(c, got, inv_mod_oracle(&ar, &m); a, m);
        }
    }
}

fn int_inv_mod<const L: usize, const U: usize>(c: &mut Ctx)
where
    Odd<Uint<L>>: PrecomputeInverter<Inverter = SafeGcdInverter<L, U>, Output = Uint<L>>,
{
    let bits = 64 * L as u32;
    let mut pairs = c.scaled(div_for(L), |c| inv_pairs(c, L, true));
    if L > 4 {
        // every k is covered by Uint::inv_mod; a sample here
        let mut i = 0;
        pairs.retain(|_| {
            i += 1;
            i % 3 == 0
        });
    }
    let ms: Vec<BigUint> = pairs.iter().step_by(97).map(|p| p.1.clone()).collect();
    pairs.extend(ms.into_iter().map(|m| (pow2(bits - 1), m)));
    for (i, (au, m)) in pairs.into_iter().enumerate() {
        if c.done() {
            return;
        }
        if m.is_zero() {
            continue; // NonZero modulus
        }
        let a = signed_view(&au, bits, if au == pow2(bits - 1) { 0 } else { i });
        let ar = mod_pos(&a, &m);
        let (x, y) = (bi::<L>(&a), nzu::<L>(&m));
        let got = call(|| opt(InvMod::inv_mod(&x, &y))).map(|o| o.map(|r| ub(&r)));
        if m.is_one() {
            check!(c, got.map(|o| o.is_some()), true; a, m);
        } else {
            check!(c, got, inv_mod_oracle(&ar, &m); a, m);
        }
    }
}

// ---------------------------------------------------------------- gcd

fn gcd<const L: usize, const U: usize>(c: &mut Ctx)
where
    Odd<Uint<L>>: PrecomputeInverter<Inverter = SafeGcdInverter<L, U>, Output = Uint<L>>,
{
    for (i, (a, b)) in c.scaled(div_for(L), |c| gcd_pairs(c, L)).into_iter().enumerate() {
        if c.done() {
            return;
        }
        if L > 16 && i % (if c.cap < 2048 { 8 } else { 4 }) != 0 {
            continue; // U2048: a token corpus
        }
        let (x, y) = (bu::<L>(&a), bu::<L>(&b));
        let g = a.gcd(&b);
        check!(c, call(|| x.gcd(&y)).map(|r| ub(&r)), g.clone(); a, b);
        check!(c, call(|| <Uint<L> as Gcd>::gcd_vartime(&x, &y)).map(|r| ub(&r)), g.clone(); a, b);
        if L <= 4 || i % 8 == 0 {
            check!(c, call(|| <Uint<L> as Gcd>::gcd(&x, &y)).map(|r| ub(&r)), g; a, b);
        }
    }
}

fn odd_gcd_vartime<const L: usize, const U: usize>(c: &mut Ctx)
where
    Odd<Uint<L>>: PrecomputeInverter<Inverter = SafeGcdInverter<L, U>, Output = Uint<L>>,
{
    for (a, b) in c.scaled(div_for(L).min(8), |c| gcd_pairs(c, L)) {
        if c.done() {
            return;
        }
        let a = a | BigUint::one();
        let (x, y) = (oddu::<L>(&a), bu::<L>(&b));
        check!(c, call(|| x.gcd_vartime(&y)).map(|r| ub(&r)), a.gcd(&b); a, b);
    }
}

fn int_gcd<const L: usize, const U: usize>(c: &mut Ctx)
where
    Odd<Uint<L>>: PrecomputeInverter<Inverter = SafeGcdInverter<L, U>, Output = Uint<L>>,
{
    let bits = 64 * L as u32;
    for (i, (au, bv)) in c.scaled(div_for(L), |c| gcd_pairs(c, L)).into_iter().enumerate() {
        if c.done() {
            return;
        }
        // MIN stays MIN; other values get one of the three signed readings
        let top = pow2(bits - 1);
        let a = signed_view(&au, bits, if au == top { 0 } else { i });
        let b = signed_view(&bv, bits, if bv == top { 0 } else { i / 3 });
        let (x, y) = (bi::<L>(&a), bi::<L>(&b));
        let g = a.magnitude().gcd(b.magnitude());
        check!(c, call(|| <Int<L> as Gcd>::gcd(&x, &y)).map(|r| ub(&r)), g.clone(); a, b);
        check!(c, call(|| <Int<L> as Gcd>::gcd_vartime(&x, &y)).map(|r| ub(&r)), g; a, b);
        if i % 2 == 0 && (L <= 4 || i % 8 == 0) {
            // mixed forms: the unsigned operand is used as it is
            let (xu, yu) = (bu::<L>(&au), bu::<L>(&bv));
            let g1 = a.magnitude().gcd(&bv);
            check!(c, call(|| <Int<L> as Gcd<Uint<L>>>::gcd(&x, &yu)).map(|r| ub(&r)), g1.clone(); a, bv);
            check!(c, call(|| <Int<L> as Gcd<Uint<L>>>::gcd_vartime(&x, &yu)).map(|r| ub(&r)), g1; a, bv);
            let g2 = au.gcd(b.magnitude());
            check!(c, call(|| <Uint<L> as Gcd<Int<L>>>::gcd(&xu, &y)).map(|r| ub(&r)), g2.clone(); au, b);
            check!(c, call(|| <Uint<L> as Gcd<Int<L>>>::gcd_vartime(&xu, &y)).map(|r| ub(&r)), g2; au, b);
        }
    }
}

// ---------------------------------------------------------------- BoxedUint (equal precisions)

fn boxed_inv_odd_mod(c: &mut Ctx) {
    for nl in 1..=4usize {
        for (a, m) in c.scaled(4, |c| inv_pairs(c, nl, false)) {
            if c.done() {
                return;
            }
            let (x, y) = (bx(&a, nl), oddx(&m, nl));
            inv_check!(c, call(|| opt(x.inv_odd_mod(&y))).map(|o| o.map(|r| xb(&r))); a, m, nl);
        }
    }
}

fn boxed_inverter(c: &mut Ctx) {
    for nl in 1..=4usize {
        for (a, m) in c.scaled(4, |c| inv_pairs(c, nl, false)) {
            if c.done() {
                return;
            }
            let (x, y) = (bx(&a, nl), oddx(&m, nl));
            let inv = match call(|| y.precompute_inverter()) {
                Ok(i) => i,
                Err(p) => {
                    no_panic!(c, Err::<(), String>(p); m, nl);
                    continue;
                }
            };
            let ct = call(|| opt(inv.invert(&x)));
            let vt = call(|| opt(inv.invert_vartime(&x)));
            let same = match (&ct, &vt) {
                (Ok(p), Ok(q)) => p == q,
                _ => true,
            };
            inv_check!(c, ct.map(|o| o.map(|r| xb(&r))); a, m, nl);
            inv_check!(c, vt.map(|o| o.map(|r| xb(&r))); a, m, nl);
            let _ = holds!(c, same, "invert == invert_vartime"; a, m, nl);
        }
    }
}

fn boxed_inv_mod(c: &mut Ctx) {
    for nl in 1..=4usize {
        for (i, (a, m)) in c.scaled(8, |c| inv_pairs(c, nl, true)).into_iter().enumerate() {
            if c.done() {
                return;
            }
            let (x, y) = (bx(&a, nl), bx(&m, nl));
            inv_check!(c, call(|| opt(x.inv_mod(&y))).map(|o| o.map(|r| xb(&r))); a, m, nl);
            if i % 4 == 0 {
                inv_check!(c, call(|| opt(<BoxedUint as InvMod>::inv_mod(&x, &y))).map(|o| o.map(|r| xb(&r))); a, m, nl);
            }
        }
    }
}

fn boxed_inv_mod2k(c: &mut Ctx) {
    for nl in 1..=4usize {
        let bits = 64 * nl as u32;
        let n_full = (c.cap / 4 / bits as usize).clamp(3, 16);
        let n = (c.cap / 64).max(n_full);
        for (i, a) in mod2k_values(c, nl, n).into_iter().enumerate() {
            let x = bx(&a, nl);
            for k in ks_for(c, bits, i < n_full) {
                if c.done() {
                    return;
                }
                let m = pow2(k);
                // documented shape: (value, Choice), FALSE when the inverse does not exist
                let as_opt = |(v, ok): (BoxedUint, Choice)| if cb(ok) { Some(xb(&v)) } else { None };
                let ct = call(|| x.inv_mod2k(k)).map(as_opt);
                let vt = call(|| x.inv_mod2k_vartime(k)).map(as_opt);
                let same = match (&ct, &vt) {
                    (Ok(p), Ok(q)) => p == q,
                    _ => true,
                };
                inv_check!(c, ct; a, m, k, nl);
                inv_check!(c, vt; a, m, k, nl);
                let _ = holds!(c, same, "inv_mod2k == inv_mod2k_vartime"; a, k, nl);
            }
        }
    }
}

fn boxed_gcd(c: &mut Ctx) {
    for nl in 1..=4usize {
        for (i, (a, b)) in c.scaled(8, |c| gcd_pairs(c, nl)).into_iter().enumerate() {
            if c.done() {
                return;
            }
            let (x, y) = (bx(&a, nl), bx(&b, nl));
            let g = a.gcd(&b);
            check!(c, call(|| <BoxedUint as Gcd>::gcd(&x, &y)).map(|r| xb(&r)), g.clone(); a, b, nl);
            check!(c, call(|| <BoxedUint as Gcd>::gcd_vartime(&x, &y)).map(|r| xb(&r)), g; a, b, nl);
            // Odd<BoxedUint> (same routine without the power-of-two split): every other pair
            if i % 2 == 1 {
                continue;
            }
            let ao = &a | BigUint::one();
            let xo = oddx(&ao, nl);
            let g = ao.gcd(&b);
            check!(c, call(|| <Odd<BoxedUint> as Gcd<BoxedUint>>::gcd(&xo, &y)).map(|r| xb(&r)), g.clone(); ao, b, nl);
            check!(c, call(|| <Odd<BoxedUint> as Gcd<BoxedUint>>::gcd_vartime(&xo, &y)).map(|r| xb(&r)), g; ao, b, nl);
        }
    }
}

pub fn cases() -> Vec<Case> {
    let mut v = Vec::new();
    gcases!(v, "U", "inv_odd_mod", inv_odd_mod; (1, 3), (2, 4), (3, 5), (4, 6), (16, 18));
    gcases!(v, "U", "inv_mod/InvMod::inv_mod", inv_mod; (1, 3), (2, 4), (3, 5), (4, 6), (16, 18), (32, 35));
    gcases!(v, "U", "precompute_inverter/Inverter::invert/invert_vartime", inverter; (1, 3), (2, 4), (3, 5), (4, 6), (16, 18));
    ucases!(v, "inv_mod2k/inv_mod2k_vartime", inv_mod2k; 1, 2, 3, 4, 16);
    gcases!(v, "I", "inv_odd_mod", int_inv_odd_mod; (1, 3), (2, 4), (3, 5), (4, 6), (16, 18));
    gcases!(v, "I", "InvMod::inv_mod (NonZero<Uint>)", int_inv_mod; (1, 3), (2, 4), (3, 5), (4, 6), (16, 18));
    gcases!(v, "U", "gcd/Gcd::gcd/Gcd::gcd_vartime", gcd; (1, 3), (2, 4), (3, 5), (4, 6), (16, 18), (32, 35));
    gcases!(v, "U", "Odd::gcd_vartime", odd_gcd_vartime; (1, 3), (2, 4), (3, 5), (4, 6), (16, 18));
    gcases!(v, "I", "Gcd::gcd/gcd_vartime (Int/Int, Int/Uint, Uint/Int)", int_gcd; (1, 3), (2, 4), (3, 5), (4, 6), (16, 18));
    case!(v, "BoxedUint::inv_odd_mod", boxed_inv_odd_mod);
    case!(v, "BoxedUint precompute_inverter/Inverter::invert/invert_vartime", boxed_inverter);
    case!(v, "BoxedUint::inv_mod/InvMod::inv_mod", boxed_inv_mod);
    case!(v, "BoxedUint::inv_mod2k/inv_mod2k_vartime", boxed_inv_mod2k);
    case!(v, "BoxedUint Gcd::gcd/gcd_vartime (BoxedUint, Odd<BoxedUint>)", boxed_gcd);
    v
}
