//! Rendering of inputs / results for the JSON witness lines (hex for integers).

use crate::conv::{ib, ub, xb};
use crypto_bigint::{BoxedUint, Int, Limb, NonZero, Odd, Uint};
use num_bigint::{BigInt, BigUint, Sign};

pub trait Show {
    fn show(&self) -> String;
}

impl Show for BigUint {
    fn show(&self) -> String {
        format!("0x{:x}", self)
    }
}
impl Show for BigInt {
    fn show(&self) -> String {
        match self.sign() {
            Sign::Minus => format!("-0x{:x}", self.magnitude()),
            _ => format!("0x{:x}", self.magnitude()),
        }
    }
}
impl<const L: usize> Show for Uint<L> {
    fn show(&self) -> String {
        ub(self).show()
    }
}
impl<const L: usize> Show for Int<L> {
    fn show(&self) -> String {
        ib(self).show()
    }
}
impl Show for BoxedUint {
    fn show(&self) -> String {
        format!("{}/{}limbs", xb(self).show(), self.nlimbs())
    }
}
impl Show for Limb {
    fn show(&self) -> String {
        format!("0x{:x}", self.0)
    }
}
impl<T: Show> Show for NonZero<T> {
    fn show(&self) -> String {
        self.as_ref().show()
    }
}
impl<T: Show> Show for Odd<T> {
    fn show(&self) -> String {
        self.as_ref().show()
    }
}
macro_rules! show_display {
    ($($t:ty),*) => {$(impl Show for $t { fn show(&self) -> String { format!("{}", self) } })*};
}
show_display!(u8, u16, u32, usize, i8, i16, i32, i64, i128, isize, bool, String, &str, char);
impl Show for u64 {
    fn show(&self) -> String {
        format!("0x{:x}", self)
    }
}
impl Show for u128 {
    fn show(&self) -> String {
        format!("0x{:x}", self)
    }
}
impl Show for core::cmp::Ordering {
    fn show(&self) -> String {
        format!("{:?}", self)
    }
}
impl Show for () {
    fn show(&self) -> String {
        "()".into()
    }
}
/// Byte strings are shown as plain hex (no 0x prefix).
impl Show for Vec<u8> {
    fn show(&self) -> String {
        self.iter().map(|b| format!("{:02x}", b)).collect()
    }
}
impl Show for [u8] {
    fn show(&self) -> String {
        self.iter().map(|b| format!("{:02x}", b)).collect()
    }
}
impl<T: Show> Show for Option<T> {
    fn show(&self) -> String {
        match self {
            Some(x) => format!("some({})", x.show()),
            None => "none".into(),
        }
    }
}
impl<T: Show, E: Show> Show for Result<T, E> {
    fn show(&self) -> String {
        match self {
            Ok(x) => format!("ok({})", x.show()),
            Err(e) => format!("err({})", e.show()),
        }
    }
}
impl<T: Show + ?Sized> Show for &T {
    fn show(&self) -> String {
        (**self).show()
    }
}
impl<A: Show, B: Show> Show for (A, B) {
    fn show(&self) -> String {
        format!("({}, {})", self.0.show(), self.1.show())
    }
}
impl<A: Show, B: Show, C: Show> Show for (A, B, C) {
    fn show(&self) -> String {
        format!("({}, {}, {})", self.0.show(), self.1.show(), self.2.show())
    }
}
impl<A: Show, B: Show, C: Show, D: Show> Show for (A, B, C, D) {
    fn show(&self) -> String {
        format!("({}, {}, {}, {})", self.0.show(), self.1.show(), self.2.show(), self.3.show())
    }
}
/// Lists of values (e.g. lincomb terms).
impl<T: Show> Show for Vec<T>
where
    T: NotByte,
{
    fn show(&self) -> String {
        let v: Vec<String> = self.iter().map(|x| x.show()).collect();
        format!("[{}]", v.join(", "))
    }
}
/// Marker to keep `Vec<u8>` (hex string) and `Vec<T>` (list) impls disjoint.
pub trait NotByte {}
impl NotByte for BigUint {}
impl NotByte for BigInt {}
impl NotByte for u32 {}
impl NotByte for u64 {}
impl NotByte for String {}
impl<A, B> NotByte for (A, B) {}
impl<A, B, C> NotByte for (A, B, C) {}

/// Minimal JSON string escaping.
pub fn json_str(s: &str) -> String {
    let mut o = String::with_capacity(s.len() + 2);
    o.push('"');
    for ch in s.chars() {
        match ch {
            '"' => o.push_str("\\\""),
            '\\' => o.push_str("\\\\"),
            '\n' => o.push_str("\\n"),
            '\r' => o.push_str("\\r"),
            '\t' => o.push_str("\\t"),
            c if (c as u32) < 0x20 => o.push_str(&format!("\\u{:04x}", c as u32)),
            c => o.push(c),
        }
    }
    o.push('"');
    o
}
