//! Search context: RNG, budgets, failure reporting, panic capture.

use crate::show::json_str;
use rand_chacha::ChaCha8Rng;
use rand_core::SeedableRng;
use std::cell::{Cell, RefCell};
use std::panic::{AssertUnwindSafe, catch_unwind};

/// A named search case: one public API form of one property.
pub struct Case {
    pub name: String,
    pub run: fn(&mut Ctx),
}

impl Case {
    pub fn new(name: impl Into<String>, run: fn(&mut Ctx)) -> Self {
        Case { name: name.into(), run }
    }
}

/// Where witness lines go.
pub enum Sink {
    Stdout,
    /// collected (unit tests, self-test)
    Buffer(Vec<String>),
}

pub struct Ctx {
    /// property id printed in witness lines
    pub prop: String,
    /// current case name
    pub case: String,
    pub rng: ChaCha8Rng,
    pub seed: u64,
    /// number of random inputs per case
    pub iters: usize,
    /// cap on the number of edge-corpus combinations per case
    pub cap: usize,
    /// stop a case after this many failures
    pub max_fail: usize,
    /// C11 mode: only panics count, value mismatches are ignored
    pub panic_only: bool,
    /// when set, failures are tagged `"known": <id>`, printed, but not counted
    pub known: Option<&'static str>,
    /// tag of the whole current case (`known.rs`); `known` is reset to it, not to `None`
    pub case_tag: Option<&'static str>,
    pub case_fails: usize,
    pub case_known: usize,
    pub total_fails: usize,
    pub total_known: usize,
    pub checks: u64,
    pub sink: Sink,
}

thread_local! {
    static LAST_PANIC: RefCell<Option<String>> = const { RefCell::new(None) };
    static IN_CALL: Cell<u32> = const { Cell::new(0) };
}

/// Install a panic hook that, for panics raised inside [`call`], prints nothing and remembers
/// message + location; any other panic (a bug in the harness) goes to the previous hook.
pub fn install_silent_hook() {
    static ONCE: std::sync::Once = std::sync::Once::new();
    ONCE.call_once(install_hook);
}

fn install_hook() {
    let previous = std::panic::take_hook();
    std::panic::set_hook(Box::new(move |info| {
        if IN_CALL.with(|d| d.get()) == 0 {
            previous(info);
            return;
        }
        let msg = if let Some(s) = info.payload().downcast_ref::<&str>() {
            (*s).to_string()
        } else if let Some(s) = info.payload().downcast_ref::<String>() {
            s.clone()
        } else {
            "<non-string panic payload>".to_string()
        };
        let loc = info
            .location()
            .map(|l| format!(" at {}:{}", l.file(), l.line()))
            .unwrap_or_default();
        LAST_PANIC.with(|p| *p.borrow_mut() = Some(format!("{}{}", msg, loc)));
    }));
}

/// Run `f`, turning a panic into `Err(message)`.
pub fn call<R>(f: impl FnOnce() -> R) -> Result<R, String> {
    IN_CALL.with(|d| d.set(d.get() + 1));
    let r = catch_unwind(AssertUnwindSafe(f));
    IN_CALL.with(|d| d.set(d.get() - 1));
    match r {
        Ok(r) => Ok(r),
        Err(payload) => {
            let from_hook = LAST_PANIC.with(|p| p.borrow_mut().take());
            Err(from_hook.unwrap_or_else(|| {
                if let Some(s) = payload.downcast_ref::<&str>() {
                    (*s).to_string()
                } else if let Some(s) = payload.downcast_ref::<String>() {
                    s.clone()
                } else {
                    "<panic>".to_string()
                }
            }))
        }
    }
}

fn fnv(s: &str) -> u64 {
    let mut h: u64 = 0xcbf29ce484222325;
    for b in s.bytes() {
        h ^= b as u64;
        h = h.wrapping_mul(0x100000001b3);
    }
    h
}

impl Ctx {
    pub fn new(prop: &str, seed: u64, iters: usize, max_fail: usize) -> Self {
        Ctx {
            prop: prop.to_string(),
            case: String::new(),
            rng: ChaCha8Rng::seed_from_u64(seed),
            seed,
            iters,
            cap: 4096,
            max_fail,
            panic_only: false,
            known: None,
            case_tag: None,
            case_fails: 0,
            case_known: 0,
            total_fails: 0,
            total_known: 0,
            checks: 0,
            sink: Sink::Stdout,
        }
    }

    /// Start a case: the RNG is re-seeded from (seed, case name) so that a case sees the same
    /// inputs whatever `--filter` selects.
    pub fn begin_case(&mut self, name: &str) {
        self.case = name.to_string();
        self.rng = ChaCha8Rng::seed_from_u64(self.seed ^ fnv(name));
        self.case_fails = 0;
        self.case_known = 0;
        self.known = None;
        self.case_tag = None;
    }

    /// True when the current case has used up its failure budget. Known-finding hits do not
    /// stop a case (only their printing is capped): an unknown failure may still be ahead.
    pub fn done(&self) -> bool {
        self.case_fails >= self.max_fail
    }

    /// Emit one witness line.
    pub fn report(
        &mut self,
        inputs: &[(&str, String)],
        got: Option<String>,
        expected: String,
        panic: Option<String>,
    ) {
        if let Some(_k) = self.known {
            self.case_known += 1;
            self.total_known += 1;
            if self.case_known > self.max_fail {
                return;
            }
        } else {
            self.case_fails += 1;
            self.total_fails += 1;
            if self.case_fails > self.max_fail {
                return;
            }
        }
        let mut line = String::new();
        line.push_str(&format!("{{\"prop\": {}, \"case\": {}, \"inputs\": {{", json_str(&self.prop), json_str(&self.case)));
        for (i, (k, v)) in inputs.iter().enumerate() {
            if i > 0 {
                line.push_str(", ");
            }
            line.push_str(&format!("{}: {}", json_str(k), json_str(v)));
        }
        line.push_str("}, \"got\": ");
        line.push_str(&got.map(|g| json_str(&g)).unwrap_or_else(|| "null".into()));
        line.push_str(&format!(", \"expected\": {}", json_str(&expected)));
        line.push_str(", \"panic\": ");
        line.push_str(&panic.map(|g| json_str(&g)).unwrap_or_else(|| "null".into()));
        if let Some(k) = self.known {
            line.push_str(&format!(", \"known\": {}", json_str(k)));
        }
        line.push('}');
        match &mut self.sink {
            Sink::Stdout => println!("{}", line),
            Sink::Buffer(v) => v.push(line),
        }
    }
}

/// Lazily rendered inputs of a check (only evaluated when a witness line is printed).
pub type Inputs<'a> = &'a dyn Fn() -> Vec<(&'static str, String)>;

/// Out-of-line bodies of the check macros: the macros expand at thousands of call sites, so they
/// only evaluate their arguments and delegate here (keeps compile time and binary size down).
impl Ctx {
    #[inline(never)]
    pub fn check_val<T: PartialEq + crate::show::Show>(&mut self, got: Result<T, String>, exp: T, inputs: Inputs) -> bool {
        self.checks += 1;
        match got {
            Ok(g) if g == exp => true,
            Ok(g) => {
                if !self.panic_only {
                    self.report(&inputs(), Some(g.show()), exp.show(), None);
                }
                self.panic_only
            }
            Err(p) => {
                self.report(&inputs(), None, exp.show(), Some(p));
                false
            }
        }
    }

    #[inline(never)]
    pub fn no_panic_val(&mut self, err: Option<&String>, inputs: Inputs) -> bool {
        self.checks += 1;
        match err {
            None => true,
            Some(p) => {
                self.report(&inputs(), None, "no panic".to_string(), Some(p.clone()));
                false
            }
        }
    }

    #[inline(never)]
    pub fn must_panic_val(&mut self, returned: Option<&dyn crate::show::Show>, inputs: Inputs) -> bool {
        self.checks += 1;
        match returned {
            None => true,
            Some(g) => {
                self.report(&inputs(), Some(g.show()), "panic (documented)".to_string(), None);
                false
            }
        }
    }

    #[inline(never)]
    pub fn holds_val(&mut self, ok: bool, what: &dyn std::fmt::Display, inputs: Inputs) -> bool {
        self.checks += 1;
        if !ok && !self.panic_only {
            self.report(&inputs(), Some("false".to_string()), format!("{}", what), None);
        }
        ok || self.panic_only
    }
}

/// `check!(ctx, got, expected; a, b, c)`:
/// `got: Result<T, String>` (from [`call`]), `expected: T`; the identifiers after `;` are the
/// inputs (anything implementing `Show`) recorded in the witness line. Returns `true` if ok.
#[macro_export]
macro_rules! check {
    ($c:expr, $got:expr, $exp:expr; $($name:ident),* $(,)?) => {{
        let got__ = $got;
        let exp__ = $exp;
        $c.check_val(got__, exp__, &|| vec![$((stringify!($name), $crate::show::Show::show(&$name))),*])
    }};
}

/// `no_panic!(ctx, got; inputs..)`: only requires that the call returned.
#[macro_export]
macro_rules! no_panic {
    ($c:expr, $got:expr; $($name:ident),* $(,)?) => {{
        let got__ = $got;
        $c.no_panic_val(got__.as_ref().err(), &|| vec![$((stringify!($name), $crate::show::Show::show(&$name))),*])
    }};
}

/// `must_panic!(ctx, got; inputs..)`: the documented behaviour for these inputs is a panic.
#[macro_export]
macro_rules! must_panic {
    ($c:expr, $got:expr; $($name:ident),* $(,)?) => {{
        let got__ = $got;
        $c.must_panic_val(got__.as_ref().ok().map(|g| g as &dyn $crate::show::Show), &|| vec![$((stringify!($name), $crate::show::Show::show(&$name))),*])
    }};
}

/// `holds!(ctx, cond, "what"; inputs..)`: a boolean relation (no single expected value).
#[macro_export]
macro_rules! holds {
    ($c:expr, $cond:expr, $what:expr; $($name:ident),* $(,)?) => {{
        let ok__: bool = $cond;
        let r__: bool = $c.holds_val(ok__, &$what, &|| vec![$((stringify!($name), $crate::show::Show::show(&$name))),*]);
        r__
    }};
}
