//! Case-level tags: failures of a tagged case are printed with `"known": <tag>` and are not
//! counted (they do not influence the exit code).
//!
//! Two kinds of tag:
//! * a finding id of `/verif/known_findings.json` (`"findings"` list: recorded, not repaired).
//!   When a defect found by the sweep gets an id there, add a line here — the case code stays
//!   untouched. (F12 is tagged per input inside `props/c14.rs`, because the same case also
//!   checks inputs that must pass.)
//! * `triage:<slug>` — behaviour on which the documentation is silent, so that the property text
//!   alone does not decide whether it is a violation. Reported for a human, never counted.
//!
//! A tag applies to every case of the property whose name contains the substring.

pub const CASE_TAGS: &[(&str, &str, &str)] = &[
    // (property, case-name substring, tag)
    (
        "C16",
        "I64::from_i128 value outside i64",
        "triage:Int<1>::from_i128 truncates silently (From<i128> debug-asserts LIMBS >= 2, Uint::from_u128 asserts it; from_i128 documents nothing)",
    ),
    (
        "C17",
        "not a numeral and too long",
        "triage:error precedence — a string that is both too long and not a numeral yields InputSize instead of InvalidDigit (an error either way, never a value)",
    ),
];

/// Tag of a case, if any. `prop` may be `C11`, whose borrowed cases are named `<PROP>/<case>`.
pub fn tag_for(prop: &str, case: &str) -> Option<&'static str> {
    let (prop, case) = match case.split_once('/') {
        Some((p, rest)) if prop == "C11" && p.len() == 3 && p.starts_with('C') => (p, rest),
        _ => (prop, case),
    };
    CASE_TAGS.iter().find(|(p, sub, _)| *p == prop && case.contains(sub)).map(|(_, _, t)| *t)
}
