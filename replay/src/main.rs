//! `sweep` — differential witness searcher for crypto-bigint against a `num-bigint` oracle.
//!
//! This tool is run only *after* a deductive proof obligation of a property has failed; it looks
//! for a concrete failing input on the real code so that the violation report can carry a
//! replayable witness. It never decides a property: "nothing found" (exit 3) means nothing.
//!
//! ```text
//! sweep <PROP> [--seed N] [--iters N] [--max-fail K] [--filter <substring>] [--cap N] [--list]
//! sweep --self-test [--seed N] [--iters N]
//! ```
//! Witness line: `{"prop", "case", "inputs": {..hex..}, "got", "expected", "panic"[, "known"]}`.
//! Lines carrying `"known"` (a finding id of /verif/known_findings.json such as `F12`, or a
//! `triage:..` note, see `src/known.rs`) are printed but never counted.
//!
//! Exit codes of a sweep: 0 = at least one failure found (witness lines on stdout, one JSON object
//! per line), 3 = none found, 2 = usage error. `--self-test`: 0 = every property ran clean,
//! 1 = some property produced a failure, 2 = usage error.

mod conv;
mod ctx;
mod generate;
mod known;
mod props;
mod show;
#[cfg(test)]
mod selftest_wrong_oracle;

use ctx::{Ctx, Sink};
use std::time::Instant;

const USAGE: &str = "usage: sweep <C02..C20> [--seed N] [--iters N] [--max-fail K] [--filter <substring>] [--cap N] [--list]\n       sweep --self-test [--seed N] [--iters N] [--cap N]";

struct Opts {
    prop: Option<String>,
    self_test: bool,
    list: bool,
    seed: u64,
    iters: Option<usize>,
    max_fail: usize,
    cap: Option<usize>,
    filter: Option<String>,
}

fn parse_num(s: &str) -> Option<u64> {
    if let Some(h) = s.strip_prefix("0x") { u64::from_str_radix(h, 16).ok() } else { s.parse().ok() }
}

fn parse(args: &[String]) -> Result<Opts, String> {
    let mut o = Opts { prop: None, self_test: false, list: false, seed: 1, iters: None, max_fail: 3, cap: None, filter: None };
    let mut i = 0;
    while i < args.len() {
        let a = args[i].as_str();
        let val = |i: &mut usize| -> Result<String, String> {
            *i += 1;
            args.get(*i).cloned().ok_or_else(|| format!("missing value after {}", a))
        };
        match a {
            "--self-test" => o.self_test = true,
            "--list" => o.list = true,
            "--seed" => o.seed = parse_num(&val(&mut i)?).ok_or("bad --seed")?,
            "--iters" => o.iters = Some(parse_num(&val(&mut i)?).ok_or("bad --iters")? as usize),
            "--max-fail" => o.max_fail = parse_num(&val(&mut i)?).ok_or("bad --max-fail")? as usize,
            "--cap" => o.cap = Some(parse_num(&val(&mut i)?).ok_or("bad --cap")? as usize),
            "--filter" => o.filter = Some(val(&mut i)?),
            "-h" | "--help" => return Err(String::new()),
            _ if a.starts_with('-') => return Err(format!("unknown option {}", a)),
            _ => {
                if o.prop.is_some() {
                    return Err(format!("unexpected argument {}", a));
                }
                o.prop = Some(a.to_string());
            }
        }
        i += 1;
    }
    if o.max_fail == 0 {
        return Err("--max-fail must be >= 1".into());
    }
    if o.self_test == o.prop.is_some() {
        return Err("give exactly one of <PROP> and --self-test".into());
    }
    Ok(o)
}

/// Result of sweeping one property.
pub struct Summary {
    pub prop: String,
    pub cases: usize,
    pub checks: u64,
    pub fails: usize,
    pub known: usize,
    pub secs: f64,
    pub lines: Vec<String>,
}

/// Run all (filtered) cases of a property.
pub fn sweep(prop: &str, seed: u64, iters: usize, cap: usize, max_fail: usize, filter: Option<&str>, buffer: bool) -> Option<Summary> {
    let cases = props::cases(prop)?;
    let mut c = Ctx::new(prop, seed, iters, max_fail);
    c.cap = cap;
    if prop == "C11" {
        // thin version: everything once more in panic-only mode, with a quarter of the budget
        c.panic_only = true;
        c.cap = (cap / 4).max(64);
        c.iters = (iters / 4).max(16);
    }
    if buffer {
        c.sink = Sink::Buffer(Vec::new());
    }
    let t0 = Instant::now();
    let mut n = 0;
    for case in &cases {
        if let Some(f) = filter {
            if !case.name.contains(f) {
                continue;
            }
        }
        n += 1;
        c.begin_case(&case.name);
        c.case_tag = known::tag_for(prop, &case.name);
        c.known = c.case_tag;
        // a panic in the harness itself (outside `call`) must not kill the sweep silently
        let r = ctx::call(|| (case.run)(&mut c));
        if let Err(p) = r {
            c.known = None;
            c.report(&[], None, "harness completes".into(), Some(format!("harness panic (bug in sweep or unguarded crate call): {}", p)));
        }
    }
    let lines = match std::mem::replace(&mut c.sink, Sink::Stdout) {
        Sink::Buffer(v) => v,
        Sink::Stdout => Vec::new(),
    };
    Some(Summary { prop: prop.to_string(), cases: n, checks: c.checks, fails: c.total_fails, known: c.total_known, secs: t0.elapsed().as_secs_f64(), lines })
}

fn self_test(o: &Opts) -> i32 {
    let iters = o.iters.unwrap_or(200);
    let cap = o.cap.unwrap_or(1024);
    let t0 = Instant::now();
    let seed = o.seed;
    let max_fail = o.max_fail;
    // properties are independent: run them on threads
    let results: Vec<Summary> = std::thread::scope(|s| {
        let hs: Vec<_> = props::PROPS
            .iter()
            .map(|p| {
                std::thread::Builder::new()
                    .stack_size(64 << 20)
                    .spawn_scoped(s, move || sweep(p, seed, iters, cap, max_fail, None, true).unwrap())
                    .unwrap()
            })
            .collect();
        hs.into_iter().map(|h| h.join().expect("sweep thread")).collect()
    });
    println!("{:<5} {:>6} {:>12} {:>9} {:>6} {:>8}", "prop", "cases", "checks", "failures", "known", "seconds");
    let mut bad = 0;
    for r in &results {
        println!("{:<5} {:>6} {:>12} {:>9} {:>6} {:>8.2}", r.prop, r.cases, r.checks, r.fails, r.known, r.secs);
        bad += r.fails;
    }
    let (tc, tk): (usize, u64) = (results.iter().map(|r| r.cases).sum(), results.iter().map(|r| r.checks).sum());
    println!("{:<5} {:>6} {:>12} {:>9} {:>6} {:>8.2}  (wall clock, iters={}, cap={}, seed={})", "total", tc, tk, bad, results.iter().map(|r| r.known).sum::<usize>(), t0.elapsed().as_secs_f64(), iters, cap, seed);
    for r in &results {
        for l in &r.lines {
            println!("{}", l);
        }
    }
    if bad > 0 { 1 } else { 0 }
}

fn main() {
    assert_eq!(crypto_bigint::Limb::BITS, 64, "sweep assumes 64-bit limbs");
    let args: Vec<String> = std::env::args().skip(1).collect();
    let o = match parse(&args) {
        Ok(o) => o,
        Err(e) => {
            if !e.is_empty() {
                eprintln!("sweep: {}", e);
            }
            eprintln!("{}", USAGE);
            std::process::exit(2);
        }
    };
    ctx::install_silent_hook();
    if o.self_test {
        std::process::exit(self_test(&o));
    }
    let prop = o.prop.clone().unwrap();
    if o.list {
        match props::cases(&prop) {
            Some(cs) => {
                for c in cs {
                    println!("{}", c.name);
                }
                std::process::exit(0);
            }
            None => {
                eprintln!("sweep: unknown property {}\n{}", prop, USAGE);
                std::process::exit(2);
            }
        }
    }
    // the case functions build corpora of a few thousand big values and some recurse: be generous
    let o_iters = o.iters.unwrap_or(2000);
    let o_cap = o.cap.unwrap_or(4096);
    let filter = o.filter.clone();
    let (seed, max_fail) = (o.seed, o.max_fail);
    let p2 = prop.clone();
    let h = std::thread::Builder::new()
        .stack_size(64 << 20)
        .spawn(move || sweep(&p2, seed, o_iters, o_cap, max_fail, filter.as_deref(), false))
        .unwrap();
    let r = match h.join().expect("sweep thread") {
        Some(r) => r,
        None => {
            eprintln!("sweep: unknown property {}\n{}", prop, USAGE);
            std::process::exit(2);
        }
    };
    if r.cases == 0 {
        eprintln!("sweep: no case of {} matches the filter", prop);
        std::process::exit(2);
    }
    eprintln!("sweep {}: {} cases, {} checks, {} failures, {} known-finding hits, {:.2}s (seed={}, iters={}, cap={})", r.prop, r.cases, r.checks, r.fails, r.known, r.secs, seed, o_iters, o_cap);
    std::process::exit(if r.fails > 0 { 0 } else { 3 });
}
