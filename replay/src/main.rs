fn main() { println!("hi"); }
