//! Unit tests showing that the searcher finds something when there is something to find — without
//! touching /repo: (1) cases with a deliberately wrong oracle, (2) local re-implementations of
//! defects that used to be in the tree (see /verif/known_findings.json), run through the same
//! corpora as the real cases.

use crate::conv::*;
use crate::ctx::{Ctx, Sink, call};
use crate::{check, props};
use crypto_bigint::{Limb, NonZero, Uint};
use num_bigint::BigUint;
use num_traits::Zero;

fn ctx(prop: &str, case: &str) -> Ctx {
    crate::ctx::install_silent_hook();
    let mut c = Ctx::new(prop, 1, 300, 3);
    c.sink = Sink::Buffer(Vec::new());
    c.begin_case(case);
    c
}

fn lines(c: &Ctx) -> Vec<String> {
    match &c.sink {
        Sink::Buffer(v) => v.clone(),
        _ => vec![],
    }
}

/// Wrong oracle: forgets that the remainder must be reduced when n is an exact multiple plus d-1
/// ... simply: claims r = n mod d except that it reports d-1 as 0. Only inputs with n = q*d + d - 1
/// (d > 1) expose it; uniformly random inputs never do, the property corpus does.
#[test]
fn wrong_division_oracle_is_caught() {
    let mut c = ctx("C02", "U256::div_rem [wrong oracle]");
    for (n, d) in props::c02::div_inputs(&mut c, 4, 4) {
        if c.done() {
            break;
        }
        if d.is_zero() {
            continue;
        }
        let (x, y) = (bu::<4>(&n), NonZero::new(bu::<4>(&d)).unwrap());
        let (q, mut r) = (&n / &d, &n % &d);
        if d > BigUint::from(1u8) && r == &d - 1u32 && d.bits() > 64 {
            r = BigUint::zero(); // the planted error
        }
        let got = call(|| x.div_rem(&y)).map(|(q, r)| (ub(&q), ub(&r)));
        check!(c, got, (q, r); n, d);
    }
    assert!(c.total_fails >= 1, "planted oracle error not found");
    let l = lines(&c);
    assert!(!l.is_empty() && l.len() <= 3);
    assert!(l[0].starts_with("{\"prop\": \"C02\", \"case\": \"U256::div_rem [wrong oracle]\", \"inputs\": {\"n\": \"0x"));
    assert!(l[0].contains("\"expected\": ") && l[0].ends_with("\"panic\": null}"));
}

/// A panic inside the documented domain is a failure and carries message and location.
#[test]
fn panic_is_a_failure() {
    let mut c = ctx("C11", "demo");
    let x = 7u32;
    let got: Result<u32, String> = call(|| {
        if x == 7 {
            panic!("boom {}", x)
        }
        x
    });
    check!(c, got, 7u32; x);
    assert_eq!(c.total_fails, 1);
    let l = lines(&c);
    assert!(l[0].contains("\"got\": null"));
    assert!(l[0].contains("\"panic\": \"boom 7 at src/selftest_wrong_oracle.rs:"));
}

/// In C11 mode value mismatches do not count, panics do.
#[test]
fn c11_mode_ignores_mismatch() {
    let mut c = ctx("C11", "demo");
    c.panic_only = true;
    let x = 1u32;
    check!(c, call(|| 2u32), 3u32; x);
    assert_eq!(c.total_fails, 0);
    check!(c, call(|| -> u32 { panic!("x") }), 3u32; x);
    assert_eq!(c.total_fails, 1);
}

/// Known findings are printed with a tag and not counted.
#[test]
fn known_tag() {
    let mut c = ctx("C14", "demo");
    c.known = Some("F12");
    let x = 1u32;
    check!(c, call(|| 2u32), 3u32; x);
    assert_eq!((c.total_fails, c.total_known), (0, 1));
    assert!(lines(&c)[0].ends_with("\"known\": \"F12\"}"));
}

/// The pre-fix `mul_mod_special` (commit c0e16c2 repaired it): `(carry + 1)` computed in a word.
/// Re-implemented here on top of the crate's public primitives; the C07 corpus must find an input
/// where it differs from a*b mod (2^BITS - c).
fn buggy_mul_mod_special<const L: usize>(a: &Uint<L>, b: &Uint<L>, c: Limb) -> Uint<L> {
    let (lo, hi) = a.split_mul(b);
    // lo + hi * c
    let (mut acc, mut carry) = (lo, Limb::ZERO);
    {
        let mut i = 0;
        let mut limbs = acc.to_limbs();
        while i < L {
            let (n, cy) = limbs[i].mac(hi.as_limbs()[i], c, carry);
            limbs[i] = n;
            carry = cy;
            i += 1;
        }
        acc = Uint::new(limbs);
    }
    let (lo, carry) = {
        let rhs = (carry.0.wrapping_add(1) as u128) * c.0 as u128; // the defect: wraps for carry = MAX
        acc.adc(&Uint::from_u128(rhs), Limb::ZERO)
    };
    let (lo, _) = {
        let rhs = carry.0.wrapping_sub(1) & c.0;
        lo.sbb(&Uint::from_word(rhs), Limb::ZERO)
    };
    lo
}

#[test]
fn historic_mul_mod_special_defect_is_found_by_c07_corpus() {
    let mut c = ctx("C07", "U192::mul_mod_special [pre-fix re-implementation]");
    c.iters = 2000;
    let mut sane = 0u32;
    for (a, b, cc) in props::c07::special_inputs(&mut c, 3) {
        if c.done() {
            break;
        }
        let p = pow2(192) - &cc;
        let (x, y, l) = (bu::<3>(&a), bu::<3>(&b), bl(&cc));
        let exp = (&a * &b) % &p;
        // the re-implementation is the real algorithm except for the defect: it agrees with the
        // crate almost everywhere
        if buggy_mul_mod_special(&x, &y, l) == x.mul_mod_special(&y, l) {
            sane += 1;
        }
        let got = call(|| buggy_mul_mod_special(&x, &y, l)).map(|r| ub(&r));
        check!(c, got, exp; a, b, cc);
    }
    assert!(sane > 100, "re-implementation does not track the real function");
    assert!(c.total_fails >= 1, "the C07 special-modulus corpus does not reach the historic defect");
}

/// The pre-fix flooring division (commit d559c78 repaired it) gave the remainder the sign of
/// `lhs XOR rhs` instead of the divisor's. Emulated on the oracle side; the C14 corpus and the
/// relation n = q*d + r must expose it at once, and the real function must pass on the same inputs.
#[test]
fn historic_floor_remainder_sign_defect_is_found_by_c14_corpus() {
    use num_bigint::BigInt;
    use num_traits::Signed;
    let mut c = ctx("C14", "I128::checked_div_rem_floor [pre-fix emulation]");
    let mut real_ok = 0u32;
    for (n, d) in props::c14::sdiv_inputs(&mut c, 2, 2, true) {
        if d.is_zero() {
            continue;
        }
        let (q, r) = div_floor(&n, &d);
        // the defect
        let opposing = n.is_negative() != d.is_negative();
        let r_buggy = if opposing { -r.abs() } else { r.abs() };
        let x = bi::<2>(&n);
        let y = NonZero::new(bi::<2>(&d)).unwrap();
        let real = x.checked_div_rem_floor(&y);
        if ib(&real.1) == r {
            real_ok += 1;
        }
        if c.done() {
            continue;
        }
        let got: Result<(BigInt, BigInt), String> = call(|| (q.clone(), r_buggy.clone()));
        // the property's relation: n = q*d + r, and sign(r) in {0, sign(d)}
        let holds = &q * &d + &r_buggy == n && (r_buggy.is_zero() || r_buggy.is_negative() == d.is_negative());
        check!(c, got.map(|_| holds), true; n, d);
    }
    assert!(real_ok > 1000);
    assert!(c.total_fails >= 1);
}

/// Usage errors and unknown properties.
#[test]
fn registry_is_complete() {
    for p in props::PROPS {
        let cs = props::cases(p).unwrap_or_else(|| panic!("{} missing", p));
        assert!(!cs.is_empty(), "{} has no cases", p);
        let mut names: Vec<&str> = cs.iter().map(|c| c.name.as_str()).collect();
        let n = names.len();
        names.sort();
        names.dedup();
        assert_eq!(n, names.len(), "{} has duplicate case names", p);
    }
    assert!(props::cases("C01").is_none());
    assert!(props::cases("C21").is_none());
}

/// Knuth algorithm D on 64-bit limbs (textbook two-limb quotient estimate), with the add-back
/// step optionally left out. Used to show that the C02 corpus contains inputs whose quotient-digit
/// estimate is one too large — uniformly random inputs hit that with probability ~2^-63.
fn knuth_d(u: &[u64], v: &[u64], add_back: bool) -> (Vec<u64>, Vec<u64>) {
    let n = v.len();
    let m = u.len();
    assert!(n >= 2 && m >= n && v[n - 1] != 0);
    let s = v[n - 1].leading_zeros();
    let shl = |x: &[u64], extra: bool| -> Vec<u64> {
        let mut out = vec![0u64; x.len() + extra as usize];
        for i in 0..x.len() {
            out[i] |= x[i] << s;
            if s > 0 && i + 1 < out.len() {
                out[i + 1] |= x[i] >> (64 - s);
            }
        }
        out
    };
    let vn = shl(v, false);
    let mut un = shl(u, true);
    let mut q = vec![0u64; m - n + 1];
    for j in (0..=m - n).rev() {
        let num = ((un[j + n] as u128) << 64) | un[j + n - 1] as u128;
        let mut qhat = num / vn[n - 1] as u128;
        let mut rhat = num % vn[n - 1] as u128;
        while qhat >> 64 != 0 || qhat * vn[n - 2] as u128 > ((rhat << 64) | un[j + n - 2] as u128) {
            qhat -= 1;
            rhat += vn[n - 1] as u128;
            if rhat >> 64 != 0 {
                break;
            }
        }
        let (mut borrow, mut carry) = (0u64, 0u64);
        for i in 0..n {
            let p = qhat.wrapping_mul(vn[i] as u128).wrapping_add(carry as u128); // wrapping: after a missed add-back the state is garbage anyway
            carry = (p >> 64) as u64;
            let (d1, b1) = un[i + j].overflowing_sub(p as u64);
            let (d2, b2) = d1.overflowing_sub(borrow);
            un[i + j] = d2;
            borrow = (b1 || b2) as u64;
        }
        let (d1, b1) = un[j + n].overflowing_sub(carry);
        let (d2, b2) = d1.overflowing_sub(borrow);
        un[j + n] = d2;
        q[j] = qhat as u64;
        if (b1 || b2) && add_back {
            q[j] -= 1;
            let mut c = 0u64;
            for i in 0..n {
                let t = un[i + j] as u128 + vn[i] as u128 + c as u128;
                un[i + j] = t as u64;
                c = (t >> 64) as u64;
            }
            un[j + n] = un[j + n].wrapping_add(c);
        }
    }
    // unnormalise the remainder
    let mut r = vec![0u64; n];
    for i in 0..n {
        r[i] = un[i] >> s;
        if s > 0 {
            r[i] |= un[i + 1] << (64 - s);
        }
    }
    (q, r)
}

#[test]
fn c02_corpus_contains_add_back_inputs() {
    for (nl, dl) in [(4usize, 3usize), (4, 4), (16, 4)] {
        let mut c = ctx("C02", "knuth D without add-back");
        let (mut tested, mut exposed) = (0u32, 0u32);
        for (n, d) in props::c02::div_inputs(&mut c, nl, dl) {
            let v = d.to_u64_digits();
            if v.len() < 2 {
                continue;
            }
            let u = big_to_words(&n, nl);
            tested += 1;
            // sanity: the complete algorithm agrees with the oracle
            let (q, r) = knuth_d(&u, &v, true);
            assert_eq!((words_to_big(&q), words_to_big(&r)), (&n / &d, &n % &d), "reference Knuth D is wrong");
            let (q, r) = knuth_d(&u, &v, false);
            if (words_to_big(&q), words_to_big(&r)) != (&n / &d, &n % &d) {
                exposed += 1;
            }
        }
        assert!(tested > 1000);
        assert!(exposed >= 1, "no add-back input in the ({}, {}) division corpus", nl, dl);
    }
}
