//! placeholder
