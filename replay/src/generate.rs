//! Input generation: edge-value corpora built from limb alphabets, and structured random inputs.
//!
//! All generators work on `BigUint` values below `2^(64*limbs)`; cases convert with
//! `conv::bu::<L>` / `conv::bx` / `conv::bi::<L>`.

use crate::conv::{mask, pow2, words_to_big};
use crate::ctx::Ctx;
use num_bigint::BigUint;
use num_traits::{One, Zero};
use rand_core::RngCore;

/// The fixed part of the limb alphabet; a fresh random word is the tenth letter.
pub const ALPHA: [u64; 9] = [
    0,
    1,
    2,
    u64::MAX,
    u64::MAX - 1,
    1 << 63,
    (1 << 63) + 1,
    (1 << 63) - 1,
    1 << 32,
];

impl Ctx {
    pub fn word(&mut self) -> u64 {
        self.rng.next_u64()
    }

    /// uniform in 0..n (n > 0); modulo bias is irrelevant here
    pub fn below(&mut self, n: usize) -> usize {
        (self.rng.next_u64() % n as u64) as usize
    }

    pub fn coin(&mut self) -> bool {
        self.rng.next_u32() & 1 == 1
    }

    /// A letter of the alphabet (index 9 = fresh random word).
    pub fn letter(&mut self, i: usize) -> u64 {
        if i < ALPHA.len() { ALPHA[i] } else { self.word() }
    }

    /// A word that is an alphabet letter half of the time.
    pub fn edgy_word(&mut self) -> u64 {
        if self.coin() {
            let i = self.below(ALPHA.len());
            ALPHA[i]
        } else {
            self.word()
        }
    }

    /// The complete edge list of a width: the full alphabet product for 1..=4 limbs (10^limbs
    /// values), a structured family (uniform / halves / quarters / top / bottom / alternating /
    /// single limb) for wider values. Not capped.
    pub fn edge_list(&mut self, limbs: usize) -> Vec<BigUint> {
        assert!(limbs >= 1);
        let mut out = Vec::new();
        let n_alpha = ALPHA.len() + 1;
        if limbs <= 4 {
            let total = n_alpha.pow(limbs as u32);
            for mut idx in 0..total {
                let mut w = Vec::with_capacity(limbs);
                for _ in 0..limbs {
                    w.push(self.letter(idx % n_alpha));
                    idx /= n_alpha;
                }
                out.push(words_to_big(&w));
            }
        } else {
            let half = limbs / 2;
            for a in 0..n_alpha {
                for b in 0..n_alpha {
                    // all a, top limb b
                    let mut w: Vec<u64> = (0..limbs).map(|_| self.letter(a)).collect();
                    w[limbs - 1] = self.letter(b);
                    out.push(words_to_big(&w));
                    // all a, bottom limb b
                    let mut w: Vec<u64> = (0..limbs).map(|_| self.letter(a)).collect();
                    w[0] = self.letter(b);
                    out.push(words_to_big(&w));
                    // low half a, high half b
                    let w: Vec<u64> = (0..limbs).map(|i| if i < half { self.letter(a) } else { self.letter(b) }).collect();
                    out.push(words_to_big(&w));
                    // alternating
                    let w: Vec<u64> = (0..limbs).map(|i| if i % 2 == 0 { self.letter(a) } else { self.letter(b) }).collect();
                    out.push(words_to_big(&w));
                    // boundary of the halves: a everywhere, b on both sides of the middle
                    let mut w: Vec<u64> = (0..limbs).map(|_| self.letter(a)).collect();
                    w[half] = self.letter(b);
                    w[half - 1] = self.letter(b);
                    out.push(words_to_big(&w));
                }
            }
            // quarters from {0, MAX, 1, random} (Karatsuba operand halves and their halves)
            let q = [0usize, 3, 1, 9];
            let quarter = (limbs / 4).max(1);
            for code in 0..256usize {
                let sel = [q[code & 3], q[(code >> 2) & 3], q[(code >> 4) & 3], q[(code >> 6) & 3]];
                let w: Vec<u64> = (0..limbs).map(|i| self.letter(sel[(i / quarter).min(3)])).collect();
                out.push(words_to_big(&w));
            }
            // single limb set
            for i in 0..limbs {
                for v in [1u64, u64::MAX, 1 << 63] {
                    let mut w = vec![0u64; limbs];
                    w[i] = v;
                    out.push(words_to_big(&w));
                }
            }
        }
        out
    }

    /// Values every capped sample keeps: 0, 1, 2, MAX, MAX-1, 2^(BITS-1) and neighbours,
    /// 2^(BITS/2) and neighbours, 2^(64 i) and neighbours.
    pub fn must_have(&mut self, limbs: usize) -> Vec<BigUint> {
        let bits = 64 * limbs as u32;
        let max = mask(bits);
        let mut v = vec![
            BigUint::zero(),
            BigUint::one(),
            BigUint::from(2u8),
            BigUint::from(3u8),
            max.clone(),
            &max - 1u32,
            pow2(bits - 1),
            pow2(bits - 1) + 1u32,
            pow2(bits - 1) - 1u32,
            pow2(bits / 2),
            pow2(bits / 2) + 1u32,
            pow2(bits / 2) - 1u32,
        ];
        for i in 1..limbs as u32 {
            v.push(pow2(64 * i));
            v.push(pow2(64 * i) - 1u32);
            v.push(pow2(64 * i) + 1u32);
        }
        v.retain(|x| *x <= max);
        v
    }

    /// At most `n` edge values of a width: the must-have set plus a random sample of the edge list.
    pub fn edges(&mut self, limbs: usize, n: usize) -> Vec<BigUint> {
        let all = self.edge_list(limbs);
        if all.len() <= n {
            return all;
        }
        let mut out = self.must_have(limbs);
        out.truncate(n);
        while out.len() < n {
            let i = self.below(all.len());
            out.push(all[i].clone());
        }
        out
    }

    /// A structured random value below 2^(64 limbs).
    pub fn rnd(&mut self, limbs: usize) -> BigUint {
        let bits = 64 * limbs as u32;
        match self.below(10) {
            // uniform
            0..=3 => {
                let w: Vec<u64> = (0..limbs).map(|_| self.word()).collect();
                words_to_big(&w)
            }
            // limbs from the alphabet mixed with random limbs
            4..=6 => {
                let w: Vec<u64> = (0..limbs).map(|_| self.edgy_word()).collect();
                words_to_big(&w)
            }
            // random bit length
            7..=8 => {
                let k = self.below(bits as usize + 1) as u32;
                let w: Vec<u64> = (0..limbs).map(|_| self.word()).collect();
                let x = words_to_big(&w) & mask(k);
                if k > 0 && self.coin() { x | pow2(k - 1) } else { x }
            }
            // sparse: few bits set, or few bits cleared
            _ => {
                let mut x = BigUint::zero();
                for _ in 0..=self.below(3) {
                    x |= pow2(self.below(bits as usize) as u32);
                }
                if self.coin() { mask(bits) ^ x } else { x }
            }
        }
    }

    /// Structured random value in [0, m) (m > 0): mostly uniform-ish, sometimes near the ends.
    pub fn rnd_below(&mut self, m: &BigUint) -> BigUint {
        let limbs = ((m.bits() + 63) / 64).max(1) as usize;
        match self.below(8) {
            0 => BigUint::zero(),
            1 => m - 1u32,
            2 => BigUint::one() % m,
            3 => m >> 1,
            4 => (m - 1u32) - (BigUint::one() % m),
            _ => {
                let w: Vec<u64> = (0..limbs + 1).map(|_| self.word()).collect();
                words_to_big(&w) % m
            }
        }
    }

    /// Run `f` with the corpus budget (cap and iters) divided by `div` — for cases that loop over
    /// several shapes (e.g. all BoxedUint precision pairs) and share one budget.
    pub fn scaled<R>(&mut self, div: usize, f: impl FnOnce(&mut Ctx) -> R) -> R {
        let (cap, iters) = (self.cap, self.iters);
        self.cap = (cap / div).max(64);
        self.iters = (iters / div).max(16);
        let r = f(self);
        self.cap = cap;
        self.iters = iters;
        r
    }

    /// Corpus for a unary case: capped edge list + `iters` random values.
    pub fn inputs1(&mut self, limbs: usize) -> Vec<BigUint> {
        let cap = self.cap;
        let mut v = self.edges(limbs, cap);
        for _ in 0..self.iters {
            v.push(self.rnd(limbs));
        }
        v
    }

    /// Corpus for a binary case: (capped) product of edge lists + `iters` random pairs. Some random
    /// pairs are correlated (equal, off by one, complement) since independent values never are.
    pub fn inputs2(&mut self, l1: usize, l2: usize) -> Vec<(BigUint, BigUint)> {
        let (n1, n2) = split_cap(self.cap, &[edge_count(l1), edge_count(l2)]);
        let e1 = self.edges(l1, n1);
        let e2 = self.edges(l2, n2);
        let mut v = Vec::with_capacity(e1.len() * e2.len() + self.iters);
        for a in &e1 {
            for b in &e2 {
                v.push((a.clone(), b.clone()));
            }
        }
        for _ in 0..self.iters {
            let a = self.rnd(l1);
            let b = match self.below(12) {
                0 => a.clone() & mask(64 * l2 as u32),
                1 => (&a + 1u32) & mask(64 * l2 as u32),
                2 => (mask(64 * l1 as u32) ^ &a) & mask(64 * l2 as u32),
                3 => (mask(64 * l1.max(l2) as u32 + 1) + 1u32 - &a) & mask(64 * l2 as u32),
                _ => self.rnd(l2),
            };
            v.push((a, b));
        }
        v
    }

    /// Corpus for a ternary case.
    pub fn inputs3(&mut self, l1: usize, l2: usize, l3: usize) -> Vec<(BigUint, BigUint, BigUint)> {
        let (n1, n2, n3) = split_cap3(self.cap, [edge_count(l1), edge_count(l2), edge_count(l3)]);
        let e1 = self.edges(l1, n1);
        let e2 = self.edges(l2, n2);
        let e3 = self.edges(l3, n3);
        let mut v = Vec::with_capacity(e1.len() * e2.len() * e3.len() + self.iters);
        for a in &e1 {
            for b in &e2 {
                for c in &e3 {
                    v.push((a.clone(), b.clone(), c.clone()));
                }
            }
        }
        for _ in 0..self.iters {
            v.push((self.rnd(l1), self.rnd(l2), self.rnd(l3)));
        }
        v
    }

    /// Moduli for the modular properties: edge values forced >= `min`, optionally forced odd,
    /// plus the classics (1, 2, 3, 2^BITS-1, 2^(BITS-1)+-1, values with zero high limbs,
    /// 2^BITS - c). At most `n`.
    pub fn moduli(&mut self, limbs: usize, odd: bool, n: usize) -> Vec<BigUint> {
        let bits = 64 * limbs as u32;
        let max = mask(bits);
        let mut v: Vec<BigUint> = vec![
            BigUint::one(),
            BigUint::from(2u8),
            BigUint::from(3u8),
            BigUint::from(5u8),
            max.clone(),
            &max - 1u32,
            &max - 2u32,
            pow2(bits - 1),
            pow2(bits - 1) + 1u32,
            pow2(bits - 1) - 1u32,
            &max / 3u32,
            (&max / 3u32) | BigUint::one(),
            (&max / 4u32) | BigUint::one(),
            pow2(bits) - BigUint::from(u64::MAX),
            pow2(bits) - BigUint::from(1u64 << 63),
            pow2(bits) - BigUint::from(189u32),
            BigUint::from(u64::MAX),
            BigUint::from(0xffff_ffff_0000_0001u64),
            pow2(64.min(bits - 1)) + 1u32,
        ];
        let extra = self.edges(limbs, n);
        v.extend(extra);
        while v.len() < n {
            v.push(self.rnd(limbs));
        }
        let mut out = Vec::new();
        for mut m in v {
            m &= &max;
            if odd {
                m |= BigUint::one();
            }
            if m.is_zero() {
                continue;
            }
            out.push(m);
            if out.len() >= n {
                break;
            }
        }
        out
    }

    /// Residues for a modulus: 0, 1, 2, m-1, m-2, floor(m/2), ceil(m/2), random ones.
    pub fn residues(&mut self, m: &BigUint, n: usize) -> Vec<BigUint> {
        let mut v = vec![
            BigUint::zero(),
            BigUint::one() % m,
            BigUint::from(2u8) % m,
            m - 1u32,
            (m - 1u32) - (BigUint::one() % m),
            m >> 1,
            (m + 1u32) >> 1,
        ];
        for x in v.iter_mut() {
            *x %= m;
        }
        v.truncate(n);
        while v.len() < n {
            v.push(self.rnd_below(m));
        }
        v
    }
}

/// Size of the uncapped edge list (kept in sync with `edge_list`).
pub fn edge_count(limbs: usize) -> usize {
    if limbs <= 4 { 10usize.pow(limbs as u32) } else { 500 + 256 + 3 * limbs }
}

/// Split a cap on the product of two list sizes: each list gets about sqrt(cap), but a short
/// list donates its share to the other.
pub fn split_cap(cap: usize, sizes: &[usize; 2]) -> (usize, usize) {
    let root = (cap as f64).sqrt().floor() as usize;
    let root = root.max(1);
    let (a, b) = (sizes[0], sizes[1]);
    if a <= root {
        (a, (cap / a.max(1)).min(b).max(1))
    } else if b <= root {
        ((cap / b.max(1)).min(a).max(1), b)
    } else {
        (root, root)
    }
}

pub fn split_cap3(cap: usize, sizes: [usize; 3]) -> (usize, usize, usize) {
    let mut out = [1usize; 3];
    let mut rem = cap.max(1);
    // short lists first: what they do not use goes to the longer ones
    let mut order = [0usize, 1, 2];
    order.sort_by_key(|&i| sizes[i]);
    let mut left = 3u32;
    for &i in &order {
        let share = ((rem as f64).powf(1.0 / left as f64) + 1e-9).floor() as usize;
        out[i] = sizes[i].min(share).max(1);
        rem = (rem / out[i]).max(1);
        left -= 1;
    }
    (out[0], out[1], out[2])
}

#[cfg(test)]
mod tests {
    use super::*;

    #[test]
    fn edge_counts_match() {
        let mut c = Ctx::new("T", 1, 0, 3);
        for l in [1usize, 2, 3, 4, 16, 32] {
            assert_eq!(c.edge_list(l).len(), edge_count(l), "limbs {}", l);
            let bound = pow2(64 * l as u32);
            assert!(c.edge_list(l).iter().all(|x| *x < bound));
            for _ in 0..200 {
                assert!(c.rnd(l) < bound);
            }
        }
    }

    #[test]
    fn caps_respected() {
        let mut c = Ctx::new("T", 1, 10, 3);
        c.cap = 4096;
        assert_eq!(c.inputs2(1, 1).len(), 100 + 10);
        assert!(c.inputs2(4, 4).len() <= 4096 + 10);
        assert!(c.inputs2(4, 1).len() <= 4096 + 10);
        assert!(c.inputs2(4, 1).len() >= 4000);
        assert!(c.inputs3(2, 2, 1).len() <= 4096 + 10);
        assert!(c.inputs3(2, 2, 1).len() >= 2000);
        assert!(c.inputs3(16, 16, 16).len() <= 4096 + 10);
    }
}
