//! Conversions between crypto-bigint values and the `num-bigint` oracle types.
//!
//! Everything goes through the little-endian word view (`to_words` / `from_words`), which is the
//! representation the crate itself defines the value by; 64-bit limbs are assumed (checked in
//! `main`).
#![allow(dead_code)]

use crypto_bigint::{BoxedUint, Int, Limb, Uint, Word};
use num_bigint::{BigInt, BigUint, Sign};
use num_traits::{One, Zero};

/// `2^k`
pub fn pow2(k: u32) -> BigUint {
    BigUint::one() << (k as usize)
}

/// `2^k - 1`
pub fn mask(k: u32) -> BigUint {
    pow2(k) - 1u32
}

/// Little-endian words -> BigUint.
pub fn words_to_big(words: &[Word]) -> BigUint {
    let mut bytes = Vec::with_capacity(words.len() * 8);
    for w in words {
        bytes.extend_from_slice(&w.to_le_bytes());
    }
    BigUint::from_bytes_le(&bytes)
}

/// BigUint -> exactly `n` little-endian words, reduced mod 2^(64 n).
pub fn big_to_words(x: &BigUint, n: usize) -> Vec<Word> {
    let mut out: Vec<Word> = x.to_u64_digits();
    out.resize(n, 0);
    out.truncate(n);
    out
}

/// Uint -> BigUint
pub fn ub<const L: usize>(x: &Uint<L>) -> BigUint {
    words_to_big(x.as_words())
}

/// BigUint -> Uint (value reduced mod 2^BITS)
pub fn bu<const L: usize>(x: &BigUint) -> Uint<L> {
    let w = big_to_words(x, L);
    let mut arr = [0 as Word; L];
    arr.copy_from_slice(&w);
    Uint::from_words(arr)
}

/// Limb -> BigUint
pub fn lb(x: Limb) -> BigUint {
    BigUint::from(x.0)
}

/// BigUint -> Limb (mod 2^64)
pub fn bl(x: &BigUint) -> Limb {
    Limb(big_to_words(x, 1)[0])
}

/// BoxedUint -> BigUint
pub fn xb(x: &BoxedUint) -> BigUint {
    words_to_big(x.as_words())
}

/// BigUint -> BoxedUint with exactly `limbs` limbs (value reduced mod 2^(64 limbs)).
pub fn bx(x: &BigUint, limbs: usize) -> BoxedUint {
    BoxedUint::from_words(big_to_words(x, limbs))
}

/// Int (two's complement) -> BigInt
pub fn ib<const L: usize>(x: &Int<L>) -> BigInt {
    let u = words_to_big(x.as_words());
    let bits = 64 * L as u32;
    if u >= pow2(bits - 1) {
        BigInt::from(u) - BigInt::from(pow2(bits))
    } else {
        BigInt::from(u)
    }
}

/// BigInt -> Int (wrapped into two's complement of width 64 L)
pub fn bi<const L: usize>(x: &BigInt) -> Int<L> {
    Int::from_words(bu::<L>(&wrap_unsigned(x, 64 * L as u32)).to_words())
}

/// The unique representative of `x` mod 2^bits in [0, 2^bits).
pub fn wrap_unsigned(x: &BigInt, bits: u32) -> BigUint {
    let m = BigInt::from(pow2(bits));
    let mut r = x % &m;
    if r.sign() == Sign::Minus {
        r += &m;
    }
    r.to_biguint().unwrap()
}

/// The unique representative of `x` mod 2^bits in [-2^(bits-1), 2^(bits-1)).
pub fn wrap_signed(x: &BigInt, bits: u32) -> BigInt {
    let u = wrap_unsigned(x, bits);
    if u >= pow2(bits - 1) {
        BigInt::from(u) - BigInt::from(pow2(bits))
    } else {
        BigInt::from(u)
    }
}

/// Does `x` fit a signed integer of `bits` bits?
pub fn fits_signed(x: &BigInt, bits: u32) -> bool {
    let half = BigInt::from(pow2(bits - 1));
    *x >= -half.clone() && *x < half
}

/// Does `x` fit an unsigned integer of `bits` bits?
pub fn fits(x: &BigUint, bits: u32) -> bool {
    x.bits() <= bits as u64
}

/// MIN of a signed width
pub fn smin(bits: u32) -> BigInt {
    -BigInt::from(pow2(bits - 1))
}

/// MAX of a signed width
pub fn smax(bits: u32) -> BigInt {
    BigInt::from(pow2(bits - 1)) - 1
}

/// floor division / remainder with the sign of the divisor
pub fn div_floor(n: &BigInt, d: &BigInt) -> (BigInt, BigInt) {
    use num_integer::Integer;
    n.div_mod_floor(d)
}

/// Non-negative residue of a BigInt modulo a positive BigUint
pub fn mod_pos(x: &BigInt, m: &BigUint) -> BigUint {
    let m = BigInt::from(m.clone());
    let mut r = x % &m;
    if r.sign() == Sign::Minus {
        r += &m;
    }
    r.to_biguint().unwrap()
}

/// Modular inverse oracle (extended Euclid); `None` when gcd(a, m) != 1. For m = 1 returns 0.
pub fn inv_mod_oracle(a: &BigUint, m: &BigUint) -> Option<BigUint> {
    use num_integer::Integer;
    if m.is_zero() {
        return None;
    }
    let (a, mi) = (BigInt::from(a % m), BigInt::from(m.clone()));
    let e = a.extended_gcd(&mi);
    if !e.gcd.is_one() {
        return None;
    }
    Some(mod_pos(&e.x, m))
}

/// floor(sqrt(x))
pub fn isqrt(x: &BigUint) -> BigUint {
    x.sqrt()
}

#[cfg(test)]
mod tests {
    use super::*;
    use crypto_bigint::{I128, U128, U192};

    #[test]
    fn round_trips() {
        let x = (pow2(191) + pow2(64)) - 3u32;
        assert_eq!(ub(&bu::<3>(&x)), x);
        assert_eq!(ub(&bu::<2>(&x)), &x % pow2(128));
        assert_eq!(xb(&bx(&x, 4)), x);
        assert_eq!(bx(&x, 4).nlimbs(), 4);
        assert_eq!(ub(&U192::MAX), mask(192));
        assert_eq!(ub(&U128::from_u128(0x0123_4567_89ab_cdef_0011_2233_4455_6677)), BigUint::from(0x0123_4567_89ab_cdef_0011_2233_4455_6677u128));
        assert_eq!(ib(&I128::from_i128(-5)), BigInt::from(-5));
        assert_eq!(ib(&I128::MIN), smin(128));
        assert_eq!(bi::<2>(&BigInt::from(-5)), I128::from_i128(-5));
        assert_eq!(bi::<2>(&smin(128)), I128::MIN);
        assert_eq!(wrap_signed(&BigInt::from(pow2(127)), 128), smin(128));
        assert_eq!(inv_mod_oracle(&BigUint::from(3u8), &BigUint::from(7u8)), Some(BigUint::from(5u8)));
        assert_eq!(inv_mod_oracle(&BigUint::from(3u8), &BigUint::from(6u8)), None);
        assert_eq!(inv_mod_oracle(&BigUint::from(3u8), &BigUint::from(1u8)), Some(BigUint::zero()));
    }
}
