use crypto_bigint::*;
use std::panic::catch_unwind;
fn main() {
    // F9
    let a = U192::from_be_hex("ffffffffffffffff00000000000000000000000000000001");
    let b = U192::from_be_hex("ffffffffffffffffffffffffffffffff0000000000000000");
    let r = catch_unwind(|| a.mul_mod_special(&b, Limb::MAX));
    println!("F9 mul_mod_special = {:?} (expect Ok(FFFFFFFFFFFFFFFF0000000000000000...)?)", r);
    let p = U192::ZERO.wrapping_sub(&U192::from_u64(u64::MAX));
    let expect = a.mul_mod_vartime(&b, &NonZero::new(p).unwrap());
    println!("F9 expected        = {:?}", expect);
    // F10
    let three = I128::from(3).to_nz().unwrap();
    let m3 = I128::from(-3).to_nz().unwrap();
    for (n, d) in [(8, three), (-8, three), (8, m3), (-8, m3)] {
        let (q, r) = I128::from(n).checked_div_rem_floor(&d);
        let (q2, r2) = I128::from(n).checked_div_rem_floor_vartime(&d);
        println!("F10 {} floor/ {:?}: q={:?} r={:?} | vt q={:?} r={:?}", n, d.get(), q.unwrap(), r, q2.unwrap(), r2);
    }
    // F1
    let r = catch_unwind(|| Odd::<U128>::from_le_hex("01000000000000000000000000000000"));
    println!("F1 Odd::from_le_hex(LE 1) = {:?}", r.map(|o| o.get()));
    let r = catch_unwind(|| Odd::<U128>::from_le_hex("00000000000000000000000000000003"));
    println!("F1 Odd::from_le_hex(LE even 3<<120) = {:?}", r.map(|o| o.get()));
    // F3
    println!("F3 Odd::<U128>::default() = {:?}", Odd::<U128>::default().get());
    // F5
    let r = catch_unwind(|| U128::from(3u8).inv_mod(&U128::ZERO).is_some());
    println!("F5 inv_mod(3, 0) is_some = {:?}", r.map(|c| bool::from(c)));
    // F4
    use der::Decode;
    let r = catch_unwind(|| U64::from_der(&[0x02, 0x09, 0x01, 0, 0, 0, 0, 0, 0, 0, 0]).is_ok());
    println!("F4 U64::from_der(9-byte int) ok = {:?}", r);
    // F2
    use crypto_bigint::hybrid_array::Array;
    let arr: Array<u8, _> = Array::from([1u8, 0, 0, 0, 0, 0, 0, 0]);
    let r = catch_unwind(|| NonZero::<U64>::from_le_byte_array(arr));
    println!("F2 NonZero::from_le_byte_array(LE 1) = {:?}", r.map(|o| o.map(|x| x.get()).into_option()));
}
