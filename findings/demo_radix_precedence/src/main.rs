use crypto_bigint::{U64, BoxedUint, DecodeError};
fn main() {
    let long10 = "9".repeat(38) + "x";
    let r1 = U64::from_str_radix_vartime(&long10, 10);
    let r2 = U64::from_str_radix_vartime(&("1x".to_string() + &"f".repeat(16)), 16);
    let r3 = U64::from_str_radix_vartime(&"9".repeat(38), 10);
    let r4 = BoxedUint::from_str_radix_with_precision_vartime(&long10, 10, 64);
    println!("{:?} {:?} {:?} {:?}", r1, r2, r3, r4);
    let ok = r1 == Err(DecodeError::InvalidDigit) && r2 == Err(DecodeError::InvalidDigit) && r3 == Err(DecodeError::InputSize) && r4 == Err(DecodeError::InvalidDigit);
    std::process::exit(if ok { 0 } else { 1 });
}
