use crypto_bigint::*;
fn main() {
    let r = std::panic::catch_unwind(|| {
        let z = BoxedUint::from_str_radix_vartime("0", 10).unwrap();
        (z.nlimbs(), z.bits_vartime(), z.to_string_radix_vartime(10))
    });
    println!("from_str_radix_vartime(\"0\"): {:?}", r);
    let r = std::panic::catch_unwind(|| BoxedUint::from_be_hex("00", 64).is_some().unwrap_u8());
    println!("from_be_hex(\"00\", 64) is_some: {:?}", r);
}
