use crypto_bigint::{U128, Uint};
fn main() {
    let x = (U128::from_u64(5), U128::from_u64(7));
    let r1 = std::panic::catch_unwind(|| { let r = Uint::overflowing_shl_vartime_wide(x, 0); bool::from(r.is_some()) });
    println!("shl_wide(shift=0): {:?}", r1);
    let r2 = std::panic::catch_unwind(|| { let r = Uint::overflowing_shr_vartime_wide(x, 0); bool::from(r.is_some()) });
    println!("shr_wide(shift=0): {:?}", r2);
    let r3 = std::panic::catch_unwind(|| { let r = Uint::overflowing_shl_vartime_wide(x, 1); bool::from(r.is_some()) });
    println!("shl_wide(shift=1): {:?}", r3);
}
