// F12 (C14): Int::div_rem_uint_vartime / rem_uint_vartime return the remainder as Int<RHS_LIMBS>; when
// RHS_LIMBS < LIMBS that type cannot hold |r| >= 2^(64*RHS_LIMBS - 1), so n == q*d + r fails.
// Run: CARGO_TARGET_DIR=/tmp/demo_F12 cargo run --offline
use crypto_bigint::{I64, I128, NonZero, U64};
fn main() {
    let d = NonZero::new(U64::MAX).unwrap(); // d = 2^64 - 1
    // n = 2^64 - 2:  true result q = 0, r = 2^64 - 2
    let n = I128::from_i128((1i128 << 64) - 2);
    let (q, r) = n.div_rem_uint_vartime(&d);
    println!("n = 2^64-2,    d = 2^64-1: q = {:?}, r = {:?}", q, r);
    assert_eq!(q, I128::ZERO);
    assert_eq!(r, I64::from_i64(-2)); // wrong: -2 instead of 2^64-2 (wrapped into I64)
    assert_eq!(n.rem_uint_vartime(&d), I64::from_i64(-2));
    // n = -(2^64 - 3): true result q = 0, r = -(2^64 - 3)
    let n = I128::from_i128(-((1i128 << 64) - 3));
    let (q, r) = n.div_rem_uint_vartime(&d);
    println!("n = -(2^64-3), d = 2^64-1: q = {:?}, r = {:?}", q, r);
    assert_eq!(q, I128::ZERO);
    assert_eq!(r, I64::from_i64(3)); // wrong: positive remainder for a negative dividend
    println!("F12 reproduced: n != q*d + r in both cases");
}
