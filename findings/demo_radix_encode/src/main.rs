use crypto_bigint::{Uint, BoxedUint};
const W: [u64; 28] = [0x8232022f28a3b44f,0x37a2825afa2a41ba,0xaf568a145231a909,0xe71bebe7dcf99cdd,0x2b4141ba0ecd4dcb,0x505776d1b10335a1,0x73108fc91892aeea,0xe5376414c4facdd0,0x2a7e432ad3e296d9,0x1f8903f4c51e9e3d,0x9621bdb80aff97dd,0x8fc8b22af2226034,0xf39a1ecc1024d096,0x89b16007010ef014,0x86b2a75c2b412f9d,0x6a4d30d1d7c69d82,0xfb1ae32bf5c6f3,0x854cb8dcffda7711,0xc4d7591be8f627e3,0xe1d5600ae2b0c20e,0x52733e494a05a50e,0xf24ce437aabcd0a6,0xf4612dd6c2dc4572,0x649fc6d19387ce4f,0x7e1cd6729e7623dd,0xb9d243b74bd57add,0xf2d7e1a827f2ebcb,0xa0f7dca1190e18a6];
fn main() {
    let x = Uint::<28>::from_words(W);
    let s7 = x.to_string_radix_vartime(7);
    let back = Uint::<28>::from_str_radix_vartime(&s7, 7).unwrap();
    // independent cross-check through radix 16 (power-of-two path) and radix 10
    let s16 = x.to_string_radix_vartime(16);
    let back16 = Uint::<28>::from_str_radix_vartime(&s16, 16).unwrap();
    let bx = BoxedUint::from_words(W);
    let bs7 = bx.to_string_radix_vartime(7);
    println!("fixed radix 7 round trip ok: {}   radix 16 round trip ok: {}   boxed radix 7 equals fixed: {}", back == x, back16 == x, bs7 == s7);
    std::process::exit(if back == x { 0 } else { 1 });
}
