use crypto_bigint::{BoxedUint, ConstantTimeSelect};
use crypto_bigint::subtle::Choice;
fn main() {
    // 10 / (2^64 + 2): exact quotient 0
    let n = BoxedUint::from(10u64);
    let d = BoxedUint::from((1u128 << 64) + 2);
    let r = std::panic::catch_unwind(|| Option::<BoxedUint>::from(n.checked_div(&d)));
    println!("checked_div(10 [64 bit], 2^64+2 [128 bit]) -> {:?}", r.as_ref().map(|o| o.as_ref().map(|q| q.to_string())));
    let a = BoxedUint::from(7u64);
    let r2 = std::panic::catch_unwind(|| BoxedUint::ct_select(&a, &d, Choice::from(1)));
    println!("ct_select(7 [64 bit], 2^64+2 [128 bit], 1) -> {:?}", r2.as_ref().map(|q| (q.to_string(), q.bits_precision())));
    // exit code: 0 when both calls panicked (consistent), 1 when a silently wrong value came back
    let silent = matches!(r, Ok(Some(_))) || r2.is_ok();
    std::process::exit(if silent { 1 } else { 0 });
}
