use crypto_bigint::*;
use num_bigint::BigUint;
fn big(x: &BoxedUint) -> BigUint { BigUint::from_bytes_be(&x.to_be_bytes()) }
fn main() {
    let mut a = vec![0u64; 33]; for i in 30..=32 { a[i] = u64::MAX; }
    let mut b = vec![0u64; 34]; for i in 31..=33 { b[i] = u64::MAX; }
    let a = BoxedUint::from_words(a); let b = BoxedUint::from_words(b);
    let p = a.mul(&b);
    let e = big(&a) * big(&b);
    println!("33x34 mul correct: {}", big(&p) == e);
    if big(&p) != e { println!("diff = 2^{}", (e - big(&p)).bits() - 1); }
    let p2 = b.mul(&a);
    println!("34x33 mul correct: {}", big(&p2) == big(&a) * big(&b));
}
