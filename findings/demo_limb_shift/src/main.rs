use crypto_bigint::Limb;
fn main() {
    let s: u32 = std::env::args().nth(1).map(|x| x.parse().unwrap()).unwrap_or(64);
    let r = std::panic::catch_unwind(|| Limb(1).shl(s));
    println!("Limb(1).shl({s}) -> {:?}", r.map(|l| l.0));
    let r = std::panic::catch_unwind(|| Limb(1) << s);
    println!("Limb(1) << {s} -> {:?}", r.map(|l| l.0));
    let r = std::panic::catch_unwind(|| Limb(8).shr(s + 1));
    println!("Limb(8).shr({}) -> {:?}", s + 1, r.map(|l| l.0));
}
