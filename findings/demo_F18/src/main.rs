use crypto_bigint::*;
fn main() {
    let r = std::panic::catch_unwind(|| { let x = U64::from_u64(5).inv_mod2k_vartime(65); (bool::from(x.is_some()), x.unwrap_or(U64::ZERO)) });
    println!("5.inv_mod2k_vartime(65): {:?}", r);
    let c = U64::from_u64(5).inv_mod2k(65);
    println!("5.inv_mod2k(65): {:?}", (bool::from(c.is_some()), c.unwrap_or(U64::ZERO)));
    let r = std::panic::catch_unwind(|| { let x = U64::ZERO.inv_mod2k_vartime(u32::MAX); bool::from(x.is_some()) });
    println!("0.inv_mod2k_vartime(u32::MAX): {:?}", r);
}
