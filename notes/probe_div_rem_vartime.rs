use vstd::prelude::*;
use vstd::arithmetic::power::*;
use vstd::arithmetic::power2::*;
use vstd::arithmetic::div_mod::*;
verus! {

pub type Word = u64;
#[derive(Copy, Clone)]
pub struct Limb(pub Word);
impl Limb { pub const ZERO: Self = Limb(0); }

pub open spec fn B() -> int { 0x1_0000_0000_0000_0000 }
pub open spec fn bp(n: nat) -> int { pow(B(), n) }
pub open spec fn val(s: Seq<Limb>, n: nat) -> int
    decreases n
{ if n == 0 { 0 } else { val(s, (n - 1) as nat) + s[n - 1].0 as int * bp((n - 1) as nat) } }
pub open spec fn tv(s: Seq<Limb>, a: nat, b: nat) -> int { val(s, b) - val(s, a) }

pub proof fn lemma_val_ext(s: Seq<Limb>, t: Seq<Limb>, n: nat)
    requires forall|k: int| 0 <= k < n ==> s[k] == t[k],
    ensures val(s, n) == val(t, n),
    decreases n
{ if n > 0 { lemma_val_ext(s, t, (n - 1) as nat); } }

pub proof fn lemma_tv_ext(s: Seq<Limb>, t: Seq<Limb>, a: nat, b: nat)
    requires a <= b, forall|k: int| a <= k < b ==> s[k] == t[k],
    ensures tv(s, a, b) == tv(t, a, b),
    decreases b - a
{ if b > a { lemma_tv_ext(s, t, a, (b - 1) as nat); } }

pub proof fn lemma_tv_bound(s: Seq<Limb>, a: nat, b: nat)
    requires a <= b,
    ensures 0 <= tv(s, a, b) <= bp(b) - bp(a),
    decreases b - a
{
    if b > a {
        lemma_tv_bound(s, a, (b - 1) as nat);
        lemma_bp_succ((b - 1) as nat);
        let x = s[b - 1].0 as int; let pb = bp((b - 1) as nat);
        assert(0 <= x * pb <= (B() - 1) * pb) by (nonlinear_arith) requires 0 <= x <= B() - 1, pb > 0;
        assert((B() - 1) * pb == B() * pb - pb) by (nonlinear_arith);
    }
}

pub proof fn lemma_bp_succ(n: nat)
    ensures bp(n + 1) == B() * bp(n), bp(n) > 0, bp(0) == 1
{ reveal(pow); lemma_pow_positive(B(), n); lemma_pow0(B()); }
pub proof fn lemma_bp_add(a: nat, b: nat)
    ensures bp(a + b) == bp(a) * bp(b)
{ lemma_pow_adds(B(), a, b); }

#[derive(Copy, Clone)]
pub struct ConstChoice(pub Word);
impl ConstChoice {
    pub open spec fn wf(&self) -> bool { self.0 == 0 || self.0 == u64::MAX }
    pub open spec fn t(&self) -> bool { self.0 == u64::MAX }
    #[verifier::external_body]
    pub const fn from_word_mask(value: Word) -> (r: Self) requires value == 0 || value == u64::MAX ensures r.0 == value { unimplemented!() }
    #[verifier::external_body]
    pub const fn select_word(&self, a: Word, b: Word) -> (r: Word) requires self.wf() ensures r == if self.t() { b } else { a } { unimplemented!() }
}
pub open spec fn bb(l: Limb) -> int { if l.0 == u64::MAX { 1 } else { 0 } }
impl Limb {
    #[verifier::external_body]
    pub const fn mac(self, b: Limb, c: Limb, carry: Limb) -> (r: (Limb, Limb))
        ensures r.0.0 as int + r.1.0 as int * B() == self.0 as int + b.0 as int * c.0 as int + carry.0 as int
    { unimplemented!() }
    #[verifier::external_body]
    pub const fn adc(self, rhs: Limb, carry: Limb) -> (r: (Limb, Limb))
        ensures r.0.0 as int + r.1.0 as int * B() == self.0 as int + rhs.0 as int + carry.0 as int
    { unimplemented!() }
    #[verifier::external_body]
    pub const fn sbb(self, rhs: Limb, borrow: Limb) -> (r: (Limb, Limb))
        requires borrow.0 == 0 || borrow.0 == u64::MAX
        ensures r.1.0 == 0 || r.1.0 == u64::MAX, r.0.0 as int - bb(r.1) * B() == self.0 as int - rhs.0 as int - bb(borrow)
    { unimplemented!() }
    #[verifier::external_body]
    pub const fn select(a: Self, b: Self, c: ConstChoice) -> (r: Self) requires c.wf() ensures r == if c.t() { b } else { a } { unimplemented!() }
}


pub open spec fn min_int(a: int, b: int) -> int { if a < b { a } else { b } }

pub struct Reciprocal { pub divisor_normalized: Word, pub shift: u32, pub reciprocal: Word }
impl Reciprocal {
    pub open spec fn wf(&self) -> bool {
        let d = self.divisor_normalized as int; let v = self.reciprocal as int;
        &&& d >= B() / 2 &&& (B() + v) * d <= B() * B() - 1 &&& B() * B() - 1 < (B() + v) * d + d &&& self.shift < 64
    }
    pub open spec fn divisor(&self) -> int { self.divisor_normalized as int / pow2(self.shift as nat) as int }
    #[verifier::external_body]
    pub const fn new(divisor: NonZero<Limb>) -> (r: Self)
        requires divisor.0.0 != 0
        ensures r.wf(), r.divisor() == divisor.0.0 as int,
            divisor.0.0 as int >= B() / 2 ==> (r.shift == 0 && r.divisor_normalized == divisor.0.0)
    { unimplemented!() }
}
pub struct NonZero<T>(pub T);
pub struct CtOptNzLimb { pub value: NonZero<Limb>, pub is_some: bool }
impl CtOptNzLimb {
    #[verifier::external_body]
    pub const fn expect(self, msg: &str) -> (r: NonZero<Limb>) requires self.is_some ensures r == self.value { unimplemented!() }
}
impl Limb {
    pub const BITS: u32 = 64;
    #[verifier::external_body]
    pub const fn to_nz(self) -> (r: CtOptNzLimb) ensures r.is_some == (self.0 != 0), r.value.0 == self { unimplemented!() }
}

#[verifier::external_body]
pub const fn div3by2(u2: Word, u1: Word, u0: Word, v1_reciprocal: &Reciprocal, v0: Word) -> (ret__: Word)
    requires v1_reciprocal.wf(), v1_reciprocal.shift == 0, u2 <= v1_reciprocal.divisor_normalized,
    ensures ({
        let v = v1_reciprocal.divisor_normalized as int * B() + v0 as int;
        let u = (u2 as int * B() + u1 as int) * B() + u0 as int;
        ret__ as int == min_int(B() - 1, u / v)
    })
{ unimplemented!() }

pub assume_specification [u32::div_ceil] (a: u32, b: u32) -> (r: u32)
    requires b != 0
    ensures r as int == (a as int + b as int - 1) / (b as int);

pub struct Uint<const LIMBS: usize> { pub limbs: [Limb; LIMBS] }

#[verifier::external_body]
pub const fn div_rem_limb_with_reciprocal<const L: usize>(u: &Uint<L>, reciprocal: &Reciprocal) -> (r: (Uint<L>, Limb))
    requires reciprocal.wf(), reciprocal.divisor() > 0
    ensures r.0.v() * reciprocal.divisor() + r.1.0 as int == u.v(), (r.1.0 as int) < reciprocal.divisor()
{ unimplemented!() }

impl<const LIMBS: usize> Uint<LIMBS> {
    pub open spec fn v(&self) -> int { val(self.limbs@, LIMBS as nat) }

    #[verifier::external_body]
    pub const fn ZERO() -> (r: Self) ensures r.v() == 0 { unimplemented!() }
    #[verifier::external_body]
    pub const fn new(limbs: [Limb; LIMBS]) -> (r: Self) ensures r.limbs == limbs { unimplemented!() }
    #[verifier::external_body]
    pub const fn to_limbs(self) -> (r: [Limb; LIMBS]) ensures r == self.limbs { unimplemented!() }
    #[verifier::external_body]
    pub const fn from_word(w: Word) -> (r: Self) requires LIMBS >= 1 ensures r.v() == w as int { unimplemented!() }
    #[verifier::external_body]
    pub const fn resize<const T: usize>(&self) -> (r: Uint<T>) ensures T >= LIMBS ==> r.v() == self.v() { unimplemented!() }
    #[verifier::external_body]
    pub const fn bits_vartime(&self) -> (r: u32)
        requires 1 <= LIMBS < 0x100_0000
        ensures r as int <= 64 * LIMBS, (r == 0) == (self.v() == 0), self.v() < pow2(r as nat), r > 0 ==> self.v() >= pow2((r - 1) as nat)
    { unimplemented!() }
    #[verifier::external_body]
    pub const fn shl_limb_vartime(&self, shift: u32, limbs_num: usize) -> (r: (Self, Limb))
        requires shift < 64, 1 <= limbs_num <= LIMBS
        ensures val(r.0.limbs@, limbs_num as nat) + r.1.0 as int * bp(limbs_num as nat) == val(self.limbs@, limbs_num as nat) * pow2(shift as nat),
            forall|k: int| limbs_num <= k < LIMBS ==> r.0.limbs@[k] == (if shift == 0 { self.limbs@[k] } else { Limb(0) })
    { unimplemented!() }
    #[verifier::external_body]
    pub const fn shr_limb_vartime(&self, shift: u32, limbs_num: usize) -> (r: Self)
        requires shift < 64, 1 <= limbs_num <= LIMBS
        ensures val(r.limbs@, limbs_num as nat) == val(self.limbs@, limbs_num as nat) / (pow2(shift as nat) as int),
            forall|k: int| limbs_num <= k < LIMBS ==> r.limbs@[k] == (if shift == 0 { self.limbs@[k] } else { Limb(0) })
    { unimplemented!() }
}
pub proof fn lemma_knuth_digit(wv: int, y: int, u3: int, v2: int, wl: int, yl: int, e: int, q: int)
    requires
        e >= 1, wv == u3 * e + wl, 0 <= wl < e, y == v2 * e + yl, 0 <= yl < e,
        0 <= wv < y * B(), 2 * y >= B() * B() * e, u3 >= 0, v2 > 0,
        q == min_int(B() - 1, u3 / v2),
    ensures
        wv / y <= q <= wv / y + 1, 0 <= wv / y <= B() - 1,
{
    let b = B();
    let qt = wv / y;
    assert(y > 0) by (nonlinear_arith) requires 2 * y >= b * b * e, e >= 1, b == B();
    lemma_fundamental_div_mod(wv, y);
    lemma_mod_bound(wv, y);
    lemma_div_pos_is_pos(wv, y);
    assert(y * qt == qt * y) by (nonlinear_arith);
    assert(qt * y <= wv < (qt + 1) * y) by (nonlinear_arith) requires wv == y * qt + wv % y, 0 <= wv % y < y;
    // qt <= b-1
    assert(qt < b) by (nonlinear_arith) requires qt * y <= wv, wv < y * b, y > 0;
    let q3 = u3 / v2;
    lemma_fundamental_div_mod(u3, v2);
    lemma_mod_bound(u3, v2);
    lemma_div_pos_is_pos(u3, v2);
    assert(v2 * q3 == q3 * v2) by (nonlinear_arith);
    assert(q3 * v2 <= u3 < (q3 + 1) * v2) by (nonlinear_arith) requires u3 == v2 * q3 + u3 % v2, 0 <= u3 % v2 < v2;
    // qt <= q3
    assert(qt * (v2 * e) <= qt * y) by (nonlinear_arith) requires qt >= 0, y == v2 * e + yl, yl >= 0;
    assert(qt * (v2 * e) == qt * v2 * e) by (nonlinear_arith);
    assert(qt * v2 < u3 + 1) by (nonlinear_arith) requires qt * v2 * e <= wv, wv == u3 * e + wl, wl < e, e >= 1;
    assert(qt < q3 + 1) by (nonlinear_arith) requires qt * v2 <= u3, u3 < (q3 + 1) * v2, v2 > 0;
    assert(qt <= q);
    // q <= qt + 1
    if q >= qt + 2 {
        assert(q <= q3);
        assert(q * v2 <= u3) by (nonlinear_arith) requires q <= q3, q3 * v2 <= u3, v2 > 0;
        assert((qt + 2) * v2 <= q * v2) by (nonlinear_arith) requires qt + 2 <= q, v2 > 0;
        assert((qt + 2) * v2 * e <= u3 * e) by (nonlinear_arith) requires (qt + 2) * v2 <= u3, e >= 1;
        // (qt+2)*v2*e = (qt+2)*(y - yl)
        assert((qt + 2) * v2 * e == (qt + 2) * y - (qt + 2) * yl) by (nonlinear_arith) requires y == v2 * e + yl;
        assert((qt + 2) * yl <= (qt + 2) * e) by (nonlinear_arith) requires qt + 2 >= 0, yl <= e;
        // wv >= u3*e >= (qt+2)*y - (qt+2)*e ; wv < (qt+1)*y  => y < (qt+2)*e
        assert((qt + 2) * y == (qt + 1) * y + y) by (nonlinear_arith);
        assert(y < (qt + 2) * e);
        assert((qt + 2) * e <= (b + 1) * e) by (nonlinear_arith) requires qt + 2 <= b + 1, e >= 1;
        assert(b * b * e > 2 * ((b + 1) * e)) by (nonlinear_arith) requires e >= 1, b == 0x1_0000_0000_0000_0000;
        assert(false);
    }
}

pub proof fn lemma_pow2_64k(k: nat)
    ensures pow2(64 * k) as int == bp(k)
    decreases k
{
    lemma2_to64();
    lemma_bp_succ(0);
    if k > 0 {
        lemma_pow2_64k((k - 1) as nat);
        lemma_pow2_adds(64, 64 * (k - 1) as nat);
        lemma_bp_succ((k - 1) as nat);
        assert(64 * k == 64 + 64 * (k - 1));
    } else {
        assert(64 * k == 0);
    }
}

/// if val(s, n) < B^k (k <= n) then the upper limbs do not contribute
pub proof fn lemma_val_small(s: Seq<Limb>, k: nat, n: nat)
    requires k <= n, val(s, n) < bp(k),
    ensures val(s, k) == val(s, n), forall|j: int| k <= j < n ==> s[j].0 == 0,
    decreases n - k
{
    if n > k {
        lemma_tv_bound(s, 0, (n - 1) as nat);
        lemma_bp_succ((n - 1) as nat);
        let top = s[n - 1].0 as int; let pn = bp((n - 1) as nat);
        assert(val(s, 0) == 0);
        lemma_pow_increases(B() as nat, k, (n - 1) as nat);
        assert(bp(k) <= pn);
        assert(top >= 1 ==> top * pn >= pn) by (nonlinear_arith) requires pn > 0;
        assert(top == 0);
        assert(0 * pn == 0);
        assert(top * pn == 0);
        lemma_val_small(s, k, (n - 1) as nat);
    }
}

/// shifting a limb sequence down by d positions
pub proof fn lemma_shift_down(s: Seq<Limb>, t: Seq<Limb>, d: nat, n: nat, m: nat)
    requires m + d <= n, forall|j: int| 0 <= j < m ==> t[j] == s[j + d],
    ensures val(t, m) * bp(d) == tv(s, d, m + d),
    decreases m
{
    if m > 0 {
        lemma_shift_down(s, t, d, n, (m - 1) as nat);
        lemma_bp_add((m - 1) as nat, d);
        let a = t[m - 1].0 as int;
        assert(t[m - 1] == s[m - 1 + d]);
        assert((val(t, (m - 1) as nat) + a * bp((m - 1) as nat)) * bp(d) == val(t, (m - 1) as nat) * bp(d) + a * (bp((m - 1) as nat) * bp(d))) by (nonlinear_arith);
        assert((m - 1 + d) as nat == (m + d - 1) as nat);
    } else {
        assert(0 * bp(d) == 0);
    }
}

pub proof fn lemma_val_zero_tail(s: Seq<Limb>, k: nat, n: nat)
    requires k <= n, forall|j: int| k <= j < n ==> s[j].0 == 0,
    ensures val(s, n) == val(s, k),
    decreases n - k
{
    if n > k { lemma_val_zero_tail(s, k, (n - 1) as nat); assert(0 * bp((n - 1) as nat) == 0); }
}

pub open spec fn tvq(s: Seq<Limb>, p: nat, n: nat) -> int
    decreases n
{ if n <= p { 0 } else { tvq(s, p, (n - 1) as nat) + s[n - 1].0 as int * bp((n - 1 - p) as nat) } }

pub proof fn lemma_tv_factor(s: Seq<Limb>, p: nat, n: nat)
    requires p <= n
    ensures tv(s, p, n) == bp(p) * tvq(s, p, n), tvq(s, p, n) >= 0
    decreases n - p
{
    if n > p {
        lemma_tv_factor(s, p, (n - 1) as nat);
        lemma_bp_add(p, (n - 1 - p) as nat);
        lemma_bp_succ((n - 1 - p) as nat);
        let a = s[n - 1].0 as int; let e = bp((n - 1 - p) as nat);
        assert((p + (n - 1 - p)) as nat == (n - 1) as nat);
        assert(bp(p) * (tvq(s, p, (n - 1) as nat) + a * e) == bp(p) * tvq(s, p, (n - 1) as nat) + a * (bp(p) * e)) by (nonlinear_arith);
        assert(a * e >= 0) by (nonlinear_arith) requires a >= 0, e > 0;
    } else {
        assert(bp(p) * 0 == 0);
    }
}

impl<const LIMBS: usize> Uint<LIMBS> {
    pub const fn div_rem_vartime<const RHS_LIMBS: usize>(
        &self,
        rhs: &NonZero<Uint<RHS_LIMBS>>,
    ) -> (ret__: (Self, Uint<RHS_LIMBS>))
        requires 1 <= LIMBS < 0x100_0000, 1 <= RHS_LIMBS < 0x100_0000, rhs.0.v() != 0,
        ensures ret__.0.v() * rhs.0.v() + ret__.1.v() == self.v(), 0 <= ret__.1.v() < rhs.0.v(),
    {
        let dbits = rhs.0.bits_vartime();
        let yc = dbits.div_ceil(Limb::BITS) as usize;
        let ghost rv = rhs.0.v();
        let ghost sv = self.v();
        proof {
            lemma_tv_bound(rhs.0.limbs@, 0, RHS_LIMBS as nat); lemma_tv_bound(self.limbs@, 0, LIMBS as nat);
            assert(val(rhs.0.limbs@, 0) == 0); assert(val(self.limbs@, 0) == 0);
            lemma_bp_succ(0);
            lemma_pow2_64k(yc as nat);
            lemma_pow2_64k(LIMBS as nat);
            if dbits as int <= 64 * yc { if (dbits as nat) < 64 * (yc as nat) { lemma_pow2_strictly_increases(dbits as nat, 64 * (yc as nat)); } }
            assert(rv < bp(yc as nat));
            lemma_val_small(rhs.0.limbs@, yc as nat, RHS_LIMBS as nat);
        }

        // Short circuit for small or extra large divisors
        if yc == 1 {
            // If the divisor is a single limb, use limb division
            proof { lemma_bp_succ(0); assert(val(rhs.0.limbs@, 0) == 0); assert(val(rhs.0.limbs@, 1) == val(rhs.0.limbs@, 0) + rhs.0.limbs@[0].0 as int * bp(0)); let a0 = rhs.0.limbs@[0].0 as int; assert(a0 * 1 == a0) by (nonlinear_arith); assert(a0 * bp(0) == a0); }
            let (q, r) = div_rem_limb_with_reciprocal(
                self,
                &Reciprocal::new(rhs.0.limbs[0].to_nz().expect("zero divisor")),
            );
            return (q, Uint::from_word(r.0));
        }
        if yc > LIMBS {
            // Divisor is greater than dividend. Return zero and the dividend as the
            // quotient and remainder
            proof {
                // rv >= pow2(dbits-1) >= pow2(64*LIMBS) > sv
                assert(dbits as int - 1 >= 64 * LIMBS);
                if (dbits - 1) as nat > 64 * (LIMBS as nat) { lemma_pow2_strictly_increases(64 * (LIMBS as nat), (dbits - 1) as nat); }
                assert(0 * rv == 0);
            }
            return (Uint::ZERO(), self.resize());
        }

        // The shift needed to set the MSB of the highest nonzero limb of the divisor.
        // 2^shift == d in the algorithm above.
        let shift = (Limb::BITS - (dbits % Limb::BITS)) % Limb::BITS;
        let ghost s2 = pow2(shift as nat) as int;
        let ghost yv = rv * s2;   // normalised divisor value
        let ghost xv = sv * s2;   // shifted dividend value

        let (x, mut x_hi) = self.shl_limb_vartime(shift, LIMBS);
        let mut x = x.to_limbs();
        let (y, _ycarry) = rhs.0.shl_limb_vartime(shift, yc);
        let mut y = y.to_limbs();
        proof {
            lemma_pow2_pos(shift as nat);
            assert(dbits as int + shift as int == 64 * yc);
            lemma_pow2_adds((dbits - 1) as nat, shift as nat);
            lemma_pow2_adds(dbits as nat, shift as nat);
            lemma_pow2_unfold((64 * yc) as nat);
            assert((dbits - 1 + shift) as nat == (64 * yc - 1) as nat);
            // 2*yv >= B^yc, yv < B^yc
            assert(rv * s2 >= pow2((dbits - 1) as nat) * s2) by (nonlinear_arith) requires rv >= pow2((dbits - 1) as nat), s2 > 0;
            assert(rv * s2 < pow2(dbits as nat) * s2) by (nonlinear_arith) requires rv < pow2(dbits as nat), s2 > 0;
            assert(2 * yv >= bp(yc as nat) && yv < bp(yc as nat));
            // carry out of y is zero
            lemma_tv_bound(y@, 0, yc as nat); assert(val(y@, 0) == 0);
            let c = _ycarry.0 as int;
            assert(c >= 1 ==> c * bp(yc as nat) >= bp(yc as nat)) by (nonlinear_arith) requires bp(yc as nat) > 0;
            assert(c == 0); assert(0 * bp(yc as nat) == 0); assert(c * bp(yc as nat) == 0);
            assert(val(y@, yc as nat) == yv);
            assert(forall|j: int| yc <= j < RHS_LIMBS ==> y@[j].0 == 0);
            // x
            assert(val(x@, LIMBS as nat) + x_hi.0 as int * bp(LIMBS as nat) == xv);
            // top limb of y normalised
            lemma_tv_bound(y@, 0, (yc - 1) as nat);
            lemma_bp_succ((yc - 1) as nat);
            let top = y@[yc - 1].0 as int; let pt = bp((yc - 1) as nat);
            assert(2 * top >= B() - 1) by (nonlinear_arith)
                requires 2 * (val(y@, (yc - 1) as nat) + top * pt) >= B() * pt, val(y@, (yc - 1) as nat) <= pt - 1, pt > 0;
            assert(top >= B() / 2);
            // xv < 2^63 * B^LIMBS <= yv * B^(LIMBS - yc + 1)
            lemma2_to64(); lemma_pow2_unfold(64);
            if shift < 63 { lemma_pow2_strictly_increases(shift as nat, 63); }
            assert(s2 <= 0x8000_0000_0000_0000);
        }

        let reciprocal = Reciprocal::new(y[yc - 1].to_nz().expect("zero divisor"));

        let mut i;

        let mut xi = LIMBS - 1;
        let ghost mut k: nat = LIMBS as nat;    // "next" index: Rem = x_hi*B^k + val(x,k)
        let ghost mut qacc: int = 0;
        proof {
            lemma2_to64();
            lemma_bp_add(yc as nat, (LIMBS - yc + 1) as nat);
            lemma_bp_succ(LIMBS as nat); lemma_bp_succ((LIMBS - yc + 1) as nat); lemma_bp_succ((LIMBS - yc) as nat);
            assert(s2 <= 0x8000_0000_0000_0000);
            // Rem = xv < s2 * B^LIMBS <= 2^63 * B^LIMBS ; yv*B^(LIMBS-yc+1) >= B^(LIMBS+1)/2
            assert(xv < s2 * bp(LIMBS as nat)) by (nonlinear_arith) requires xv == sv * s2, sv < bp(LIMBS as nat), s2 > 0;
            assert(s2 * bp(LIMBS as nat) <= 0x8000_0000_0000_0000 * bp(LIMBS as nat)) by (nonlinear_arith) requires s2 <= 0x8000_0000_0000_0000, bp(LIMBS as nat) > 0;
            assert(2 * (yv * bp((LIMBS - yc + 1) as nat)) >= bp(yc as nat) * bp((LIMBS - yc + 1) as nat)) by (nonlinear_arith)
                requires 2 * yv >= bp(yc as nat), bp((LIMBS - yc + 1) as nat) > 0;
            lemma_bp_succ((LIMBS - yc + 1) as nat);
            assert(0 * yv == 0);
        }

        loop
            invariant_except_break
                k == xi + 1,
            invariant
                2 <= yc <= LIMBS, yc <= RHS_LIMBS, yc - 1 <= xi < LIMBS, 1 <= LIMBS < 0x100_0000,
                yc - 1 <= k <= LIMBS,
                val(y@, yc as nat) == yv, 2 * yv >= bp(yc as nat), yv < bp(yc as nat), yv > 0,
                forall|j: int| yc <= j < RHS_LIMBS ==> y@[j].0 == 0,
                reciprocal.wf(), reciprocal.shift == 0, reciprocal.divisor_normalized == y@[yc - 1].0,
                xv == qacc * yv + x_hi.0 as int * bp(k) + val(x@, k),
                x_hi.0 as int * bp(k) + val(x@, k) < yv * bp((k - yc + 1) as nat),
                tv(x@, k, LIMBS as nat) == qacc * bp((yc - 1) as nat),
            ensures
                k == xi, xi == yc - 1,
            decreases xi
        {
            let ghost p = (xi + 1 - yc) as nat;
            let ghost pp = bp(p);
            let ghost xb = x@;
            let ghost hb = x_hi;
            let ghost wsc = tv(xb, p, (xi + 1) as nat) + hb.0 as int * bp((xi + 1) as nat);
            let ghost e = bp((yc - 2) as nat);
            // Divide high dividend words by the high divisor word to estimate the quotient word
            proof {
                // x_hi <= y_top: from Rem < yv * B^(p+1)
                lemma_bp_succ(p); lemma_bp_succ(0); lemma_bp_succ(k); lemma_bp_succ((yc - 1) as nat); lemma_bp_succ((yc - 2) as nat);
                lemma_bp_add(p, yc as nat); lemma_bp_add(p, (yc - 1) as nat); lemma_bp_add(p, (yc - 2) as nat);
                lemma_tv_bound(xb, 0, k); lemma_tv_bound(xb, 0, p); lemma_tv_bound(xb, p, k); assert(val(xb, 0) == 0);
                lemma_tv_bound(y@, 0, (yc - 1) as nat); lemma_tv_bound(y@, 0, (yc - 2) as nat); assert(val(y@, 0) == 0);
                let top = y@[yc - 1].0 as int;
                let h = hb.0 as int;
                // yv < (top+1) * B^(yc-1)
                assert(yv < (top + 1) * bp((yc - 1) as nat)) by (nonlinear_arith)
                    requires yv == val(y@, (yc - 1) as nat) + top * bp((yc - 1) as nat), val(y@, (yc - 1) as nat) <= bp((yc - 1) as nat) - 1;
                // h * B^k <= Rem < yv * B * pp < (top+1) * B^(yc-1) * B * pp = (top+1) * B^k
                assert(yv * (B() * pp) < (top + 1) * bp((yc - 1) as nat) * (B() * pp)) by (nonlinear_arith)
                    requires yv < (top + 1) * bp((yc - 1) as nat), B() * pp > 0;
                assert((top + 1) * bp((yc - 1) as nat) * (B() * pp) == (top + 1) * bp(k)) by (nonlinear_arith)
                    requires bp(k) == pp * bp(yc as nat), bp(yc as nat) == B() * bp((yc - 1) as nat);
                assert(yv * bp((k - yc + 1) as nat) == yv * (B() * pp));
                assert(h < top + 1) by (nonlinear_arith) requires h * bp(k) < (top + 1) * bp(k), bp(k) > 0;
            }
            let mut quo = div3by2(x_hi.0, x[xi].0, x[xi - 1].0, &reciprocal, y[yc - 2].0);
            let ghost qt: int = wsc / (yv * pp);
            proof {
                let top = y@[yc - 1].0 as int; let y2 = y@[yc - 2].0 as int;
                let u3 = (hb.0 as int * B() + xb[xi as int].0 as int) * B() + xb[xi - 1].0 as int;
                let v2 = top * B() + y2;
                // unscaled window: wsc == pp * wv ; wv = u3 * e + wl
                let wl_sc = tv(xb, p, (xi - 1) as nat);     // = pp * wl
                lemma_tv_bound(xb, p, (xi - 1) as nat);
                // wsc = wl_sc + x[xi-1]*B^(xi-1) + x[xi]*B^xi + h*B^(xi+1)
                lemma_bp_succ((xi - 1) as nat); lemma_bp_succ(xi as nat);
                lemma_bp_add(p, (yc - 2) as nat);
                assert(bp((xi - 1) as nat) == pp * e);
                assert(val(xb, (xi + 1) as nat) == val(xb, xi as nat) + xb[xi as int].0 as int * bp(xi as nat));
                assert(val(xb, xi as nat) == val(xb, (xi - 1) as nat) + xb[xi - 1].0 as int * bp((xi - 1) as nat));
                assert(wsc == wl_sc + u3 * (pp * e)) by (nonlinear_arith)
                    requires wsc == wl_sc + xb[xi - 1].0 as int * bp((xi - 1) as nat) + xb[xi as int].0 as int * bp(xi as nat) + hb.0 as int * bp((xi + 1) as nat),
                        bp(xi as nat) == B() * bp((xi - 1) as nat), bp((xi + 1) as nat) == B() * bp(xi as nat), bp((xi - 1) as nat) == pp * e,
                        u3 == (hb.0 as int * B() + xb[xi as int].0 as int) * B() + xb[xi - 1].0 as int;
                // yv = v2 * e + yl
                let yl = val(y@, (yc - 2) as nat);
                assert(yv == v2 * e + yl) by (nonlinear_arith)
                    requires yv == yl + y2 * e + top * bp((yc - 1) as nat), bp((yc - 1) as nat) == B() * e, v2 == top * B() + y2;
                // scaled version of the digit lemma: apply with everything multiplied by pp is awkward; instead scale E.
                // Use lemma with e' = pp*e, wl' = wl_sc, y' = yv*pp, yl' = yl*pp.
                assert(yv * pp == v2 * (pp * e) + yl * pp) by (nonlinear_arith) requires yv == v2 * e + yl;
                assert(0 <= yl * pp < pp * e) by (nonlinear_arith) requires 0 <= yl < e, pp > 0;
                assert(wl_sc < pp * e);
                assert(wsc < (yv * pp) * B()) by (nonlinear_arith)
                    requires wsc <= hb.0 as int * bp(k) + val(xb, k), hb.0 as int * bp(k) + val(xb, k) < yv * (B() * pp);
                assert(wsc <= hb.0 as int * bp(k) + val(xb, k));
                assert(2 * (yv * pp) >= B() * B() * (pp * e)) by (nonlinear_arith)
                    requires 2 * yv >= bp(yc as nat), bp(yc as nat) == B() * bp((yc - 1) as nat), bp((yc - 1) as nat) == B() * e, pp > 0;
                assert(pp * e >= 1) by (nonlinear_arith) requires pp >= 1, e >= 1;
                let hh = hb.0 as int; let x1 = xb[xi as int].0 as int; let x0 = xb[xi - 1].0 as int;
                assert(u3 >= 0) by (nonlinear_arith) requires u3 == (hh * B() + x1) * B() + x0, hh >= 0, x1 >= 0, x0 >= 0;
                assert(v2 > 0) by (nonlinear_arith) requires v2 == top * B() + y2, top >= B() / 2, y2 >= 0;
                assert(wsc >= 0) by (nonlinear_arith) requires wsc == wl_sc + u3 * (pp * e), wl_sc >= 0, u3 >= 0, pp * e >= 1;
                lemma_knuth_digit(wsc, yv * pp, u3, v2, wl_sc, yl * pp, pp * e, quo as int);
                // qt*yv*pp <= wsc < (qt+1)*yv*pp
                assert(yv * pp > 0) by (nonlinear_arith) requires yv > 0, pp > 0;
                lemma_fundamental_div_mod(wsc, yv * pp);
                lemma_mod_bound(wsc, yv * pp);
                assert(qt * yv * pp <= wsc < (qt + 1) * yv * pp) by (nonlinear_arith)
                    requires wsc == (yv * pp) * qt + wsc % (yv * pp), 0 <= wsc % (yv * pp) < yv * pp;
            }

            let ghost q = quo as int;
            proof { assert(yv <= bp(yc as nat)); }
            // Subtract q*divisor from the dividend
            let borrow = {
                let mut carry = Limb::ZERO;
                let mut borrow = Limb::ZERO;
                let mut tmp;
                i = 0;
                while i < yc
                    invariant
                        2 <= yc <= LIMBS, yc <= RHS_LIMBS, xi < LIMBS, xi + 1 >= yc, LIMBS < 0x100_0000, xb.len() == LIMBS,
                        p == xi + 1 - yc, pp == bp(p), q == quo as int, 0 <= i <= yc,
                        borrow.0 == 0 || borrow.0 == u64::MAX,
                        forall|kq: int| 0 <= kq < LIMBS && !(p <= kq < p + i) ==> x@[kq] == xb[kq],
                        tv(x@, p, (p + i) as nat) == tv(xb, p, (p + i) as nat) - q * val(y@, i as nat) * pp
                            + carry.0 as int * bp((p + i) as nat) + bb(borrow) * bp((p + i) as nat),
                    decreases yc - i
                {
                    let ghost x_before = x@; let ghost carry_b = carry; let ghost borrow_b = borrow;
                    let (t0_, t1_) = Limb::ZERO.mac(y[i], Limb(quo), carry);
                    tmp = t0_; carry = t1_;
                    let (t2_, t3_) = x[xi + i + 1 - yc].sbb(tmp, borrow);
                    x[xi + i + 1 - yc] = t2_; borrow = t3_;
                    proof {
                        let kk = (p + i) as nat;
                        assert(x@ =~= x_before.update(kk as int, t2_));
                        lemma_val_ext(x_before, x@, kk);
                        lemma_val_ext(x_before, x@, p);
                        lemma_bp_succ(kk);
                        lemma_bp_add(p, i as nat);
                        let pk = bp(kk);
                        let xo = xb[kk as int].0 as int; let xn = t2_.0 as int; let tm = tmp.0 as int;
                        let yi = y@[i as int].0 as int;
                        let c1 = carry.0 as int; let c0 = carry_b.0 as int; let b1 = bb(borrow); let b0 = bb(borrow_b);
                        assert(x_before[kk as int] == xb[kk as int]);
                        assert(tm + c1 * B() == yi * q + c0);
                        assert(xn - b1 * B() == xo - tm - b0);
                        assert(xn * pk == xo * pk - (yi * q) * pk + c1 * (B() * pk) - c0 * pk + b1 * (B() * pk) - b0 * pk) by (nonlinear_arith)
                            requires tm + c1 * B() == yi * q + c0, xn - b1 * B() == xo - tm - b0;
                        assert((yi * q) * pk == q * (yi * bp(i as nat)) * pp) by (nonlinear_arith) requires pk == pp * bp(i as nat);
                        assert(q * (val(y@, i as nat) + yi * bp(i as nat)) * pp == q * val(y@, i as nat) * pp + q * (yi * bp(i as nat)) * pp) by (nonlinear_arith);
                    }
                    i += 1;
                }
                let (_t4, t5_) = x_hi.sbb(carry, borrow);
                let ghost bprev = borrow; let ghost cfin = carry;
                borrow = t5_;
                proof {
                    // top limb relation
                    let tt = _t4.0 as int;
                    assert(tt - bb(borrow) * B() == x_hi.0 as int - cfin.0 as int - bb(bprev));
                    lemma_bp_add(p, yc as nat);
                    lemma_bp_succ((xi + 1) as nat);
                    let pt = bp((xi + 1) as nat);
                    // L' + tt*pt == wsc - q*yv*pp + bb'*B*pt
                    assert(tt * pt - bb(borrow) * (B() * pt) == x_hi.0 as int * pt - cfin.0 as int * pt - bb(bprev) * pt) by (nonlinear_arith)
                        requires tt - bb(borrow) * B() == x_hi.0 as int - cfin.0 as int - bb(bprev);
                    assert(tv(x@, p, (xi + 1) as nat) + tt * pt == wsc - q * yv * pp + bb(borrow) * (B() * pt));
                    lemma_tv_bound(x@, p, (xi + 1) as nat);
                    // bounds: 0 <= L' <= pt - pp ; 0 <= tt <= B-1
                    assert(0 <= tt * pt <= (B() - 1) * pt) by (nonlinear_arith) requires 0 <= tt <= B() - 1, pt > 0;
                    assert((B() - 1) * pt == B() * pt - pt) by (nonlinear_arith);
                    // yv*pp <= pt
                    assert(yv * pp <= bp(yc as nat) * pp) by (nonlinear_arith) requires yv <= bp(yc as nat), pp > 0;
                    assert(bp(yc as nat) * pp == pt) by (nonlinear_arith) requires pt == pp * bp(yc as nat);
                    assert(q * yv * pp == qt * yv * pp + (q - qt) * (yv * pp)) by (nonlinear_arith);
                    assert((qt + 1) * yv * pp == qt * yv * pp + yv * pp) by (nonlinear_arith);
                    let l = tv(x@, p, (xi + 1) as nat);
                    let tpt = tt * pt; let bpt = B() * pt;
                    let rprime = wsc - qt * yv * pp;
                    assert(0 <= rprime < yv * pp);
                    assert(tt >= 1 ==> tpt >= pt) by (nonlinear_arith) requires tpt == tt * pt, pt > 0;
                    assert(tt <= B() - 2 ==> tpt <= bpt - 2 * pt) by (nonlinear_arith) requires tpt == tt * pt, bpt == B() * pt, pt > 0;
                    assert(tpt >= 0) by (nonlinear_arith) requires tpt == tt * pt, tt >= 0, pt > 0;
                    let bbv = bb(borrow);
                    assert(bbv == 0 || bbv == 1);
                    assert(bbv == 0 ==> bbv * bpt == 0) by (nonlinear_arith);
                    assert(bbv == 1 ==> bbv * bpt == bpt) by (nonlinear_arith);
                    if q == qt {
                        assert(l + tpt == rprime + bb(borrow) * bpt);
                        assert(bb(borrow) == 0);
                        assert(tt == 0);
                        assert(l == rprime);
                    } else {
                        assert(q == qt + 1);
                        assert((q - qt) * (yv * pp) == yv * pp) by (nonlinear_arith) requires q - qt == 1;
                        assert(l + tpt == rprime - yv * pp + bb(borrow) * bpt);
                        assert(bb(borrow) == 1);
                        assert(tt == B() - 1);
                        assert(tpt == bpt - pt) by (nonlinear_arith) requires tpt == tt * pt, bpt == B() * pt, tt == B() - 1;
                        assert(l == pt + rprime - yv * pp);
                    }
                    assert(bb(borrow) == 1 <==> q == qt + 1);
                    assert(l == (if bb(borrow) == 1 { pt + rprime - yv * pp } else { rprime }));
                }
                borrow
            };
            let ghost xs = x@;
            let ghost lsub = tv(xs, p, (xi + 1) as nat);
            proof {
                assert(bb(borrow) == 1 <==> quo as int == qt + 1);
                assert(lsub == (if bb(borrow) == 1 { bp((xi + 1) as nat) + (wsc - qt * yv * pp) - yv * pp } else { wsc - qt * yv * pp }));
            }

            // If the subtraction borrowed, then decrement q and add back the divisor
            quo = {
                let ct_borrow = ConstChoice::from_word_mask(borrow.0);
                let mut carry = Limb::ZERO;
                i = 0;
                while i < yc
                    invariant
                        2 <= yc <= LIMBS, yc <= RHS_LIMBS, xi < LIMBS, xi + 1 >= yc, LIMBS < 0x100_0000, xb.len() == LIMBS,
                        p == xi + 1 - yc, pp == bp(p), 0 <= i <= yc, ct_borrow.wf(), xs.len() == LIMBS, x@.len() == LIMBS,
                        forall|kq: int| 0 <= kq < LIMBS && !(p <= kq < p + i) ==> x@[kq] == xs[kq],
                        tv(x@, p, (p + i) as nat) + carry.0 as int * bp((p + i) as nat)
                            == tv(xs, p, (p + i) as nat) + (if ct_borrow.t() { 1int } else { 0int }) * val(y@, i as nat) * pp,
                    decreases yc - i
                {
                    let ghost x_before = x@; let ghost carry_b = carry;
                    let (t0_, t1_) =
                        x[xi + i + 1 - yc].adc(Limb::select(Limb::ZERO, y[i], ct_borrow), carry);
                    x[xi + i + 1 - yc] = t0_; carry = t1_;
                    proof {
                        let kk = (p + i) as nat;
                        assert(x@ =~= x_before.update(kk as int, t0_));
                        lemma_val_ext(x_before, x@, kk);
                        lemma_val_ext(x_before, x@, p);
                        lemma_bp_succ(kk);
                        lemma_bp_add(p, i as nat);
                        let pk = bp(kk);
                        let m = if ct_borrow.t() { 1int } else { 0int };
                        let xo = xs[kk as int].0 as int; let xn = t0_.0 as int; let yi = y@[i as int].0 as int;
                        let c1 = carry.0 as int; let c0 = carry_b.0 as int;
                        assert(x_before[kk as int] == xs[kk as int]);
                        assert(kk == xi + i + 1 - yc);
                        assert(x_before[kk as int].0 as int == xo);
                        let sel = if ct_borrow.t() { yi } else { 0int };
                        assert(m * yi == sel) by (nonlinear_arith) requires (m == 1 && sel == yi) || (m == 0 && sel == 0);
                        assert(xn + c1 * B() == xo + sel + c0);
                        assert(xn + c1 * B() == xo + m * yi + c0);
                        assert(xn * pk + c1 * (B() * pk) == xo * pk + m * yi * pk + c0 * pk) by (nonlinear_arith)
                            requires xn + c1 * B() == xo + m * yi + c0;
                        assert(m * yi * pk == m * (yi * bp(i as nat)) * pp) by (nonlinear_arith) requires pk == pp * bp(i as nat);
                        assert(m * (val(y@, i as nat) + yi * bp(i as nat)) * pp == m * val(y@, i as nat) * pp + m * (yi * bp(i as nat)) * pp) by (nonlinear_arith);
                    }
                    i += 1;
                }
                proof {
                    lemma_bp_add(p, yc as nat);
                    lemma_tv_bound(x@, p, (xi + 1) as nat);
                    lemma_tv_bound(xs, p, (xi + 1) as nat);
                    let pt = bp((xi + 1) as nat);
                    let c = carry.0 as int;
                    let rprime = wsc - qt * yv * pp;
                    let l2 = tv(x@, p, (xi + 1) as nat);
                    let cpt = c * pt;
                    assert(yv * pp <= bp(yc as nat) * pp) by (nonlinear_arith) requires yv <= bp(yc as nat), pp > 0;
                    assert(bp(yc as nat) * pp == pt) by (nonlinear_arith) requires pt == pp * bp(yc as nat);
                    assert((qt + 1) * yv * pp == qt * yv * pp + yv * pp) by (nonlinear_arith);
                    assert(0 <= rprime < yv * pp);
                    assert(c == 0 ==> cpt == 0) by (nonlinear_arith) requires cpt == c * pt;
                    assert(c == 1 ==> cpt == pt) by (nonlinear_arith) requires cpt == c * pt;
                    assert(c >= 2 ==> cpt >= 2 * pt) by (nonlinear_arith) requires cpt == c * pt, pt > 0;
                    if ct_borrow.t() {
                        assert(1 * val(y@, yc as nat) * pp == yv * pp) by (nonlinear_arith) requires yv == val(y@, yc as nat);
                        assert(l2 + cpt == pt + rprime);
                        assert(c == 1);
                        assert(l2 == rprime);
                    } else {
                        assert(0 * val(y@, yc as nat) * pp == 0) by (nonlinear_arith);
                        assert(l2 + cpt == rprime);
                        assert(c == 0);
                        assert(l2 == rprime);
                    }
                }
                ct_borrow.select_word(quo, quo.wrapping_sub(1))
            };

            // Store the quotient within dividend and set x_hi to the current highest word
            let ghost xa = x@;
            proof {
                // xa: window holds R' = wsc - qt*yv*pp ; outside window unchanged from xb
                assert(forall|kq: int| 0 <= kq < LIMBS && !(p <= kq <= xi) ==> xa[kq] == xb[kq]);
                assert(tv(xa, p, (xi + 1) as nat) == wsc - qt * yv * pp);
            }
            x_hi = x[xi];
            x[xi] = Limb(quo);
            proof {
                let xn = x@;
                assert(xn =~= xa.update(xi as int, Limb(quo)));
                lemma_val_ext(xa, xn, xi as nat);
                lemma_val_ext(xb, xa, p);
                lemma_tv_ext(xn, xa, (xi + 1) as nat, LIMBS as nat);
                lemma_tv_ext(xa, xb, (xi + 1) as nat, LIMBS as nat);
                lemma_bp_succ(xi as nat);
                lemma_bp_add(p, (yc - 1) as nat);
                let rp = wsc - qt * yv * pp;
                // new Rem' = x_hi*B^xi + val(xn, xi) = val(xb,p) + rp
                assert(val(xa, (xi + 1) as nat) == val(xa, xi as nat) + xa[xi as int].0 as int * bp(xi as nat));
                assert(x_hi.0 as int * bp(xi as nat) + val(xn, xi as nat) == val(xb, p) + rp);
                // old Rem = val(xb,p) + wsc
                assert(hb.0 as int * bp(k) + val(xb, k) == val(xb, p) + wsc);
                // quotient accumulation
                assert(tv(xn, xi as nat, LIMBS as nat) == tv(xn, (xi + 1) as nat, LIMBS as nat) + qt * bp(xi as nat));
                assert(qt * bp(xi as nat) == (qt * pp) * bp((yc - 1) as nat)) by (nonlinear_arith) requires bp(xi as nat) == pp * bp((yc - 1) as nat);
                assert((qacc + qt * pp) * bp((yc - 1) as nat) == qacc * bp((yc - 1) as nat) + (qt * pp) * bp((yc - 1) as nat)) by (nonlinear_arith);
                assert((qacc + qt * pp) * yv == qacc * yv + qt * yv * pp) by (nonlinear_arith);
                // bound: Rem' < yv * pp
                lemma_tv_bound(xb, 0, p); assert(val(xb, 0) == 0);
                assert((qt + 1) * yv * pp == qt * yv * pp + yv * pp) by (nonlinear_arith);
                assert(val(xb, p) + rp < yv * pp) by {
                    // rp is a multiple of pp strictly below yv*pp: rp <= yv*pp - pp
                    lemma_tv_factor(xb, p, (xi + 1) as nat);
                    let w = tvq(xb, p, (xi + 1) as nat);
                    let z = w + hb.0 as int * bp(yc as nat) - qt * yv;
                    let hh = hb.0 as int; let byc = bp(yc as nat);
                    assert(hh * (pp * byc) == pp * (hh * byc)) by (nonlinear_arith);
                    assert(qt * yv * pp == pp * (qt * yv)) by (nonlinear_arith);
                    assert(pp * (w + hh * byc - qt * yv) == pp * w + pp * (hh * byc) - pp * (qt * yv)) by (nonlinear_arith);
                    assert(rp == pp * z);
                    assert(z < yv) by (nonlinear_arith) requires pp * z < yv * pp, pp > 0;
                    assert(pp * z <= pp * (yv - 1)) by (nonlinear_arith) requires z <= yv - 1, pp > 0;
                    assert(pp * (yv - 1) == yv * pp - pp) by (nonlinear_arith);
                }
                qacc = qacc + qt * pp;
                k = xi as nat;
                assert((k - yc + 1) as nat == p);
            }

            if xi == yc - 1 {
                break;
            }
            xi -= 1;
        }

        // here: k == xi == yc - 1 ; Rem = x_hi*B^(yc-1) + val(x, yc-1) < yv ; xv == qacc*yv + Rem
        let ghost xq = x@;
        let ghost rem_n = x_hi.0 as int * bp((yc - 1) as nat) + val(xq, (yc - 1) as nat);
        proof { lemma_bp_succ(0); assert(yv * bp(0) == yv) by (nonlinear_arith) requires bp(0) == 1; assert(rem_n < yv); }

        // Copy the remainder to divisor
        let ghost y0 = y@;
        proof { assert(forall|j: int| yc <= j < RHS_LIMBS ==> y0[j].0 == 0); }
        i = 0;
        while i < yc - 1
            invariant 2 <= yc <= LIMBS, yc <= RHS_LIMBS, 0 <= i <= yc - 1, x@ == xq,
                forall|j: int| 0 <= j < i ==> y@[j] == xq[j],
                forall|j: int| yc <= j < RHS_LIMBS ==> y@[j].0 == 0,
            decreases yc - 1 - i
        {
            y[i] = x[i];
            i += 1;
        }
        y[yc - 1] = x_hi;
        let ghost y1 = y@;
        proof {
            assert(forall|j: int| yc <= j < RHS_LIMBS ==> y1[j].0 == 0);
            lemma_val_ext(y@, xq, (yc - 1) as nat);
            assert(val(y@, yc as nat) == rem_n);
        }

        // Unshift the remainder from the earlier adjustment
        let y = Uint::new(y).shr_limb_vartime(shift, yc);

        // Shift the quotient to the low limbs within dividend
        i = 0;
        while i < LIMBS
            invariant 2 <= yc <= LIMBS, 0 <= i <= LIMBS,
                forall|j: int| 0 <= j < i && j <= LIMBS - yc ==> x@[j] == xq[j + yc - 1],
                forall|j: int| 0 <= j < i && j > LIMBS - yc ==> x@[j].0 == 0,
                forall|j: int| i <= j < LIMBS ==> x@[j] == xq[j],
            decreases LIMBS - i
        {
            if i <= (LIMBS - yc) {
                x[i] = x[i + yc - 1];
            } else {
                x[i] = Limb::ZERO;
            }
            i += 1;
        }
        proof {
            let m = (LIMBS - yc + 1) as nat; let d = (yc - 1) as nat;
            lemma_shift_down(xq, x@, d, LIMBS as nat, m);
            lemma_val_zero_tail(x@, m, LIMBS as nat);
            assert((m + d) as nat == LIMBS as nat);
            // val(x', LIMBS) * B^(yc-1) == tv(xq, yc-1, LIMBS) == qacc * B^(yc-1)
            lemma_bp_succ(d);
            assert(val(x@, LIMBS as nat) == qacc) by (nonlinear_arith)
                requires val(x@, LIMBS as nat) * bp(d) == qacc * bp(d), bp(d) > 0;
            // remainder: rem_n == s2 * (sv - qacc*rv), divide by s2
            lemma_tv_bound(xq, 0, (yc - 1) as nat); assert(val(xq, 0) == 0);
            assert(rem_n >= 0) by (nonlinear_arith) requires rem_n == x_hi.0 as int * bp((yc - 1) as nat) + val(xq, (yc - 1) as nat), val(xq, (yc - 1) as nat) >= 0, bp((yc - 1) as nat) > 0, x_hi.0 as int >= 0;
            assert(xv == qacc * yv + rem_n);
            let rr = sv - qacc * rv;
            assert(rem_n == rr * s2) by (nonlinear_arith) requires sv * s2 == qacc * (rv * s2) + rem_n, rr == sv - qacc * rv;
            assert(0 <= rr < rv) by (nonlinear_arith) requires rem_n == rr * s2, 0 <= rem_n, rem_n < rv * s2, s2 > 0;
            lemma_div_multiples_vanish(rr, s2);
            assert(rr * s2 == s2 * rr) by (nonlinear_arith);
            lemma_div_by_multiple(rr, s2);
            // upper limbs of y are zero
            assert(forall|j: int| yc <= j < RHS_LIMBS ==> y.limbs@[j].0 == 0);
            lemma_val_zero_tail(y.limbs@, yc as nat, RHS_LIMBS as nat);
        }

        (Uint::new(x), y)
    }
}

} // verus!
fn main() {}
