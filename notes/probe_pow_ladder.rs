use vstd::prelude::*;
use vstd::arithmetic::div_mod::*;
use vstd::arithmetic::mul::*;
use vstd::arithmetic::power::*;
use vstd::arithmetic::power2::*;
use vstd::bits::*;
verus! {

pub type Word = u64;
#[derive(Copy, Clone)]
pub struct Limb(pub Word);
impl Limb { pub const ZERO: Self = Limb(0); pub const BITS: u32 = 64; }
pub open spec fn B() -> int { 0x1_0000_0000_0000_0000 }
pub open spec fn bp(n: nat) -> int { pow(B(), n) }
pub open spec fn val(s: Seq<Limb>, n: nat) -> int
    decreases n
{ if n == 0 { 0 } else { val(s, (n - 1) as nat) + s[n - 1].0 as int * bp((n - 1) as nat) } }

#[derive(Copy, Clone)]
pub struct ConstChoice(pub Word);
impl ConstChoice {
    pub open spec fn wf(&self) -> bool { self.0 == 0 || self.0 == u64::MAX }
    pub open spec fn t(&self) -> bool { self.0 == u64::MAX }
    #[verifier::external_body]
    pub const fn from_word_eq(x: Word, y: Word) -> (r: Self) ensures r.wf(), r.t() == (x == y) { unimplemented!() }
}
#[derive(Copy, Clone)]
pub struct Uint<const LIMBS: usize> { pub limbs: [Limb; LIMBS] }
pub struct Odd<T>(pub T);
impl<const LIMBS: usize> Uint<LIMBS> {
    pub open spec fn v(&self) -> int { val(self.limbs@, LIMBS as nat) }
    #[verifier::external_body]
    pub const fn select(a: &Self, b: &Self, c: ConstChoice) -> (r: Self) requires c.wf() ensures r == if c.t() { *b } else { *a } { unimplemented!() }
    pub const fn as_limbs(&self) -> (r: &[Limb; LIMBS]) ensures *r == self.limbs { &self.limbs }
}

/// the residue represented by a Montgomery-form value (abstract here; defined in C08)
pub uninterp spec fn mr<const LIMBS: usize>(x: Uint<LIMBS>) -> int;

#[verifier::external_body]
pub const fn mul_montgomery_form<const LIMBS: usize>(a: &Uint<LIMBS>, b: &Uint<LIMBS>, modulus: &Odd<Uint<LIMBS>>, mod_neg_inv: Limb) -> (r: Uint<LIMBS>)
    requires modulus.0.v() > 0
    ensures mr(r) == (mr(*a) * mr(*b)) % modulus.0.v()
{ unimplemented!() }
#[verifier::external_body]
pub const fn square_montgomery_form<const LIMBS: usize>(a: &Uint<LIMBS>, modulus: &Odd<Uint<LIMBS>>, mod_neg_inv: Limb) -> (r: Uint<LIMBS>)
    requires modulus.0.v() > 0
    ensures mr(r) == (mr(*a) * mr(*a)) % modulus.0.v()
{ unimplemented!() }

const WINDOW: u32 = 4;
pub const fn WINDOW_MASK() -> (r: Word) ensures r == 15 { assert((1u64 << 4u32) == 16u64) by (bit_vector); (1 << WINDOW) - 1 }

/// ((y % (b*c*t)) / b) % c == (y / b) % c       (all positive, y >= 0)
pub proof fn lemma_mod_div_mod(y: int, b: int, c: int, t: int)
    requires y >= 0, b > 0, c > 0, t > 0
    ensures ((y % (b * c * t)) / b) % c == (y / b) % c
{
    let mm = b * c * t;
    assert(mm > 0) by (nonlinear_arith) requires b > 0, c > 0, t > 0, mm == b * c * t;
    let q = y / mm; let r = y % mm;
    lemma_fundamental_div_mod(y, mm); lemma_mod_bound(y, mm);
    // y = mm*q + r ; y / b = (c*t*q) + r / b
    assert(mm * q == b * (c * t * q)) by (nonlinear_arith) requires mm == b * c * t;
    lemma_div_pos_is_pos(y, mm);
    assert(c * t * q >= 0) by (nonlinear_arith) requires c > 0, t > 0, q >= 0;
    // (b*(ctq) + r) / b == ctq + r/b
    lemma_fundamental_div_mod(r, b); lemma_mod_bound(r, b);
    let rq = r / b; let rr = r % b;
    assert(y == b * (c * t * q + rq) + rr) by (nonlinear_arith) requires y == b * (c * t * q) + r, r == b * rq + rr;
    lemma_fundamental_div_mod_converse(y, b, c * t * q + rq, rr);
    assert(y / b == c * t * q + rq);
    // mod c
    assert(c * t * q == c * (t * q)) by (nonlinear_arith);
    lemma_mod_multiples_vanish(t * q, rq, c);
    assert((c * (t * q) + rq) % c == rq % c);
}

/// (y % (b*c)) / b == (y / b) % c
pub proof fn lemma_mod_div(y: int, b: int, c: int)
    requires y >= 0, b > 0, c > 0
    ensures (y % (b * c)) / b == (y / b) % c
{
    let mm = b * c;
    assert(mm > 0) by (nonlinear_arith) requires b > 0, c > 0, mm == b * c;
    let q = y / mm; let r = y % mm;
    lemma_fundamental_div_mod(y, mm); lemma_mod_bound(y, mm);
    lemma_fundamental_div_mod(r, b); lemma_mod_bound(r, b);
    let rq = r / b; let rr = r % b;
    lemma_div_pos_is_pos(y, mm); lemma_div_pos_is_pos(r, b);
    assert(rq < c) by (nonlinear_arith) requires r == b * rq + rr, r < b * c, rr >= 0, b > 0;
    assert(y == b * (c * q + rq) + rr) by (nonlinear_arith) requires y == (b * c) * q + r, r == b * rq + rr;
    lemma_fundamental_div_mod_converse(y, b, c * q + rq, rr);
    lemma_mod_multiples_vanish(q, rq, c);
    lemma_small_mod(rq as nat, c as nat);
}

/// nibble of a word: ((w >> 4j) & 15) == (w / 2^(4j)) % 16
pub proof fn lemma_nibble(w: u64, j: u32)
    requires j < 16
    ensures ((w >> (j * 4)) & 15) as int == (w as int / pow2((4 * j) as nat) as int) % 16
{
    let s = (j * 4) as u64;
    lemma_u64_shr_is_div(w, s);
    let x = w >> s;
    assert(x & 15 == x % 16) by (bit_vector);
    assert((j * 4) as nat == (4 * j) as nat);
}



/// limb extraction: (val(s, n) / B^l) % B == s[l]
pub proof fn lemma_limb_extract(s: Seq<Limb>, n: nat, l: nat)
    requires l < n
    ensures (val(s, n) / bp(l)) % B() == s[l as int].0 as int
    decreases n
{
    reveal(pow); 
    lemma_pow_positive(B(), l);
    lemma_val_nonneg(s, l);
    if n == l + 1 {
        // val = val(s,l) + s[l]*B^l, val(s,l) < B^l
        lemma_val_lt(s, l);
        let a = s[l as int].0 as int;
        assert(val(s, n) == bp(l) * a + val(s, l)) by (nonlinear_arith) requires val(s, n) == val(s, l) + a * bp(l);
        lemma_fundamental_div_mod_converse(val(s, n), bp(l), a, val(s, l));
        lemma_small_mod(a as nat, B() as nat);
    } else {
        lemma_limb_extract(s, (n - 1) as nat, l);
        // val(s,n) = val(s,n-1) + top*B^(n-1); B^(n-1) = B^l * B * B^(n-2-l)
        let top = s[n - 1].0 as int;
        lemma_pow_adds(B(), l, (n - 1 - l) as nat);
        assert((l + (n - 1 - l)) as nat == (n - 1) as nat);
        lemma_pow_adds(B(), 1, (n - 2 - l) as nat);
        assert((1 + (n - 2 - l)) as nat == (n - 1 - l) as nat);
        lemma_pow1(B());
        let e = bp((n - 2 - l) as nat);
        lemma_pow_positive(B(), (n - 2 - l) as nat);
        // val(s,n) = val(s,n-1) + bp(l) * (B * e * top)
        assert(top * bp((n - 1) as nat) == bp(l) * (B() * (e * top))) by (nonlinear_arith)
            requires bp((n - 1) as nat) == bp(l) * bp((n - 1 - l) as nat), bp((n - 1 - l) as nat) == B() * e;
        let y = val(s, (n - 1) as nat);
        lemma_val_nonneg(s, (n - 1) as nat);
        assert(e * top >= 0) by (nonlinear_arith) requires e > 0, top >= 0;
        // (y + bp(l)*K)/bp(l) == y/bp(l) + K
        let kk = B() * (e * top);
        lemma_fundamental_div_mod(y, bp(l)); lemma_mod_bound(y, bp(l));
        assert(y + bp(l) * kk == bp(l) * (y / bp(l) + kk) + y % bp(l)) by (nonlinear_arith) requires y == bp(l) * (y / bp(l)) + y % bp(l);
        lemma_fundamental_div_mod_converse(y + bp(l) * kk, bp(l), y / bp(l) + kk, y % bp(l));
        lemma_mod_multiples_vanish(e * top, y / bp(l), B());
        assert(B() * (e * top) + y / bp(l) == y / bp(l) + kk);
    }
}
pub proof fn lemma_val_nonneg(s: Seq<Limb>, n: nat)
    ensures val(s, n) >= 0
    decreases n
{
    if n > 0 { lemma_val_nonneg(s, (n - 1) as nat); lemma_pow_positive(B(), (n - 1) as nat);
        let a = s[n - 1].0 as int; let p = bp((n - 1) as nat);
        assert(a * p >= 0) by (nonlinear_arith) requires a >= 0, p > 0; }
}
pub proof fn lemma_val_lt(s: Seq<Limb>, n: nat)
    ensures val(s, n) < bp(n)
    decreases n
{
    reveal(pow);
    if n > 0 {
        lemma_val_lt(s, (n - 1) as nat); lemma_pow_positive(B(), (n - 1) as nat);
        let a = s[n - 1].0 as int; let p = bp((n - 1) as nat);
        assert(a * p <= (B() - 1) * p) by (nonlinear_arith) requires a <= B() - 1, p > 0;
        assert((B() - 1) * p + p == B() * p) by (nonlinear_arith);
    }
}

pub type PE<const LIMBS: usize, const RHS_LIMBS: usize> = ([Uint<LIMBS>; 16], Uint<RHS_LIMBS>);

/// exponent of entry i, truncated to k bits, shifted down by pos bits
pub open spec fn ep<const L: usize, const R: usize>(pe: Seq<PE<L, R>>, i: int, k: nat, pos: nat) -> nat {
    ((pe[i].1.v() % (pow2(k) as int)) / (pow2(pos) as int)) as nat
}
pub open spec fn bres<const L: usize, const R: usize>(pe: Seq<PE<L, R>>, i: int) -> int { mr(pe[i].0@[1]) }
/// integer product  prod_{i<cnt} b_i ^ ep_i(pos)
pub open spec fn ip<const L: usize, const R: usize>(pe: Seq<PE<L, R>>, cnt: nat, k: nat, pos: nat) -> int
    decreases cnt
{ if cnt == 0 { 1 } else { ip(pe, (cnt - 1) as nat, k, pos) * pow(bres(pe, cnt - 1), ep(pe, cnt - 1, k, pos)) } }
/// integer product of the digit terms  prod_{i<cnt} b_i ^ (ep_i(pos) % 16)
pub open spec fn idg<const L: usize, const R: usize>(pe: Seq<PE<L, R>>, cnt: nat, k: nat, pos: nat) -> int
    decreases cnt
{ if cnt == 0 { 1 } else { idg(pe, (cnt - 1) as nat, k, pos) * pow(bres(pe, cnt - 1), ep(pe, cnt - 1, k, pos) % 16) } }

pub proof fn lemma_ep_step<const L: usize, const R: usize>(pe: Seq<PE<L, R>>, i: int, k: nat, pos: nat)
    requires pe[i].1.v() >= 0
    ensures ep(pe, i, k, pos) == 16 * ep(pe, i, k, pos + 4) + ep(pe, i, k, pos) % 16
{
    let e = pe[i].1.v() % (pow2(k) as int);
    lemma_pow2_pos(k); lemma_pow2_pos(pos); lemma_pow2_pos(pos + 4);
    lemma_mod_bound(pe[i].1.v(), pow2(k) as int);
    lemma_pow2_adds(pos, 4); lemma2_to64();
    let a = pow2(pos) as int;
    // e / (a*16) == (e / a) / 16
    lemma_div_denominator(e, a, 16);
    lemma_fundamental_div_mod(e / a, 16);
    lemma_div_pos_is_pos(e, a);
    lemma_div_pos_is_pos(e, a * 16);
}

/// window step, integer form
pub proof fn lemma_window<const L: usize, const R: usize>(pe: Seq<PE<L, R>>, cnt: nat, k: nat, pos: nat)
    requires forall|i: int| 0 <= i < cnt ==> pe[i].1.v() >= 0
    ensures ip(pe, cnt, k, pos) == pow(ip(pe, cnt, k, pos + 4), 16) * idg(pe, cnt, k, pos)
    decreases cnt
{
    if cnt == 0 {
        lemma_pow1(1); lemma1_pow(16);
    } else {
        let c1 = (cnt - 1) as nat;
        lemma_window(pe, c1, k, pos);
        lemma_ep_step(pe, cnt - 1, k, pos);
        let b = bres(pe, cnt - 1);
        let q = ep(pe, cnt - 1, k, pos + 4); let d = ep(pe, cnt - 1, k, pos) % 16;
        let ip1 = ip(pe, c1, k, pos + 4); let id1 = idg(pe, c1, k, pos);
        // pow(b, 16q + d) = pow(pow(b,q),16) * pow(b,d)
        lemma_pow_adds(b, 16 * q, d);
        lemma_pow_multiplies(b, q, 16);
        assert(q * 16 == 16 * q);
        // pow(ip1 * pow(b,q), 16) = pow(ip1,16) * pow(pow(b,q),16)
        lemma_pow_distributes(ip1, pow(b, q), 16);
        let x1 = pow(ip1, 16); let x2 = pow(pow(b, q), 16); let x3 = pow(b, d);
        assert((x1 * id1) * (x2 * x3) == (x1 * x2) * (id1 * x3)) by (nonlinear_arith);
    }
}

/// when k <= pos every truncated exponent shifted by pos is zero, so the product is 1
pub proof fn lemma_ip_top<const L: usize, const R: usize>(pe: Seq<PE<L, R>>, cnt: nat, k: nat, pos: nat)
    requires k <= pos, forall|i: int| 0 <= i < cnt ==> pe[i].1.v() >= 0
    ensures ip(pe, cnt, k, pos) == 1
    decreases cnt
{
    if cnt > 0 {
        lemma_ip_top(pe, (cnt - 1) as nat, k, pos);
        let e = pe[cnt - 1].1.v() % (pow2(k) as int);
        lemma_pow2_pos(k); lemma_pow2_pos(pos);
        lemma_mod_bound(pe[cnt - 1].1.v(), pow2(k) as int);
        if k < pos { lemma_pow2_strictly_increases(k, pos); }
        lemma_basic_div(e, pow2(pos) as int);
        lemma_pow0(bres(pe, cnt - 1));
    }
}

pub proof fn lemma_pow16(x: int)
    ensures ((x * x) * (x * x)) * ((x * x) * (x * x)) * (((x * x) * (x * x)) * ((x * x) * (x * x))) == pow(x, 16)
{
    lemma_pow_adds(x, 1, 1); lemma_pow1(x);
    lemma_pow_adds(x, 2, 2); lemma_pow_adds(x, 4, 4); lemma_pow_adds(x, 8, 8);
}

pub proof fn lemma_pow2_64k(k: nat)
    ensures pow2(64 * k) as int == bp(k)
    decreases k
{
    lemma2_to64(); reveal(pow);
    if k > 0 {
        lemma_pow2_64k((k - 1) as nat);
        lemma_pow2_adds(64, 64 * (k - 1) as nat);
        assert(64 * k == 64 + 64 * (k - 1));
    } else { assert(64 * k == 0); }
}

/// the 4-bit digit read from limb `ln`, window `wn` equals digit `pos/4` of the truncated exponent
pub proof fn lemma_digit<const L: usize, const R: usize>(pe: Seq<PE<L, R>>, i: int, k: nat, ln: nat, wn: nat)
    requires ln < R, wn < 16, 64 * ln + 4 * wn + 4 <= k
    ensures ((pe[i].1.limbs@[ln as int].0 >> ((wn * 4) as u32)) & 15) as int == (ep(pe, i, k, 64 * ln + 4 * wn) % 16) as int
{
    let e = pe[i].1.v(); let w = pe[i].1.limbs@[ln as int].0;
    let pos = 64 * ln + 4 * wn;
    lemma_val_nonneg(pe[i].1.limbs@, R as nat);
    lemma_limb_extract(pe[i].1.limbs@, R as nat, ln);
    lemma_pow2_64k(ln); lemma_pow2_pos(64 * ln); lemma_pow2_pos(4 * wn); lemma_pow2_pos(pos); lemma_pow2_pos(k);
    lemma_nibble(w, wn as u32);
    assert(((wn as u32) * 4) as u32 == (wn * 4) as u32);
    let y = e / bp(ln);
    lemma_div_pos_is_pos(e, bp(ln));
    // w == y % 2^64 ; (w / 2^(4wn)) % 16 == (y / 2^(4wn)) % 16
    let b = pow2(4 * wn) as int; let t = pow2((60 - 4 * wn) as nat) as int;
    lemma_pow2_pos((60 - 4 * wn) as nat);
    lemma_pow2_adds(4 * wn, 4); lemma_pow2_adds(4 * wn + 4, (60 - 4 * wn) as nat); lemma2_to64();
    assert((4 * wn + 4 + (60 - 4 * wn)) as nat == 64);
    assert(b * 16 * t == B()) by (nonlinear_arith) requires pow2(4 * wn + 4) as int == b * 16, pow2(64) as int == pow2(4 * wn + 4) as int * t, pow2(64) as int == B();
    lemma_mod_div_mod(y, b, 16, t);
    // (y / b) == e / 2^pos
    lemma_div_denominator(e, bp(ln), b);
    lemma_pow2_adds(64 * ln, 4 * wn);
    assert(bp(ln) * b == pow2(pos) as int);
    // masking by 2^k
    let t2 = pow2((k - pos - 4) as nat) as int;
    lemma_pow2_pos((k - pos - 4) as nat);
    lemma_pow2_adds(pos, 4); lemma_pow2_adds(pos + 4, (k - pos - 4) as nat);
    assert((pos + 4 + (k - pos - 4)) as nat == k);
    let a = pow2(pos) as int;
    assert(a * 16 * t2 == pow2(k) as int) by (nonlinear_arith) requires pow2(pos + 4) as int == a * 16, pow2(k) as int == pow2(pos + 4) as int * t2;
    lemma_mod_div_mod(e, a, 16, t2);
    lemma_mod_bound(e, pow2(k) as int);
    lemma_div_pos_is_pos(e % (pow2(k) as int), a);
}

/// the top (partial) window: masked digit equals the whole remaining prefix
pub proof fn lemma_digit_first<const L: usize, const R: usize>(pe: Seq<PE<L, R>>, i: int, k: nat, ln: nat, wn: nat, t: nat, idx: u64)
    requires ln < R, wn < 16, 1 <= t <= 4, k == 64 * ln + 4 * wn + t,
        idx == ((pe[i].1.limbs@[ln as int].0 >> ((wn * 4) as u32)) & 15) & ((1u64 << (t as u32)) - 1) as u64,
    ensures idx as int == ep(pe, i, k, 64 * ln + 4 * wn) as int, idx < 16
{
    let e = pe[i].1.v(); let w = pe[i].1.limbs@[ln as int].0;
    let pos = 64 * ln + 4 * wn;
    lemma_val_nonneg(pe[i].1.limbs@, R as nat);
    lemma_limb_extract(pe[i].1.limbs@, R as nat, ln);
    lemma_pow2_64k(ln); lemma_pow2_pos(64 * ln); lemma_pow2_pos(4 * wn); lemma_pow2_pos(pos); lemma_pow2_pos(k); lemma_pow2_pos(t);
    lemma_nibble(w, wn as u32);
    assert(((wn as u32) * 4) as u32 == (wn * 4) as u32);
    let nib = (w >> ((wn * 4) as u32)) & 15;
    let tt = t as u32;
    assert(idx == nib % (1u64 << tt) && idx < 16) by (bit_vector) requires idx == nib & (((1u64 << tt) - 1) as u64), 1 <= tt <= 4, nib < 16;
    lemma_pow2_strictly_increases(t, 64); lemma2_to64();
    lemma_u64_shl_is_mul(1, t as u64);
    let pt = pow2(t) as int;
    assert((1u64 << tt) as int == pt);
    // nib == (e / 2^pos) % 16  (same as in lemma_digit but without k-masking)
    let y = e / bp(ln);
    lemma_div_pos_is_pos(e, bp(ln));
    let b = pow2(4 * wn) as int; let t3 = pow2((60 - 4 * wn) as nat) as int;
    lemma_pow2_pos((60 - 4 * wn) as nat);
    lemma_pow2_adds(4 * wn, 4); lemma_pow2_adds(4 * wn + 4, (60 - 4 * wn) as nat);
    assert((4 * wn + 4 + (60 - 4 * wn)) as nat == 64);
    assert(b * 16 * t3 == B()) by (nonlinear_arith) requires pow2(4 * wn + 4) as int == b * 16, pow2(64) as int == pow2(4 * wn + 4) as int * t3, pow2(64) as int == B();
    lemma_mod_div_mod(y, b, 16, t3);
    lemma_div_denominator(e, bp(ln), b);
    lemma_pow2_adds(64 * ln, 4 * wn);
    let a = pow2(pos) as int;
    assert(bp(ln) * b == a);
    let z = e / a;
    lemma_div_pos_is_pos(e, a);
    assert(nib as int == z % 16);
    // (z % 16) % 2^t == z % 2^t   since 2^t | 16
    let c2 = pow2((4 - t) as nat) as int; lemma_pow2_pos((4 - t) as nat);
    lemma_pow2_adds(t, (4 - t) as nat); assert((t + (4 - t)) as nat == 4);
    assert(pt * c2 == 16);
    lemma_mod_mod(z, pt, c2);
    assert(idx as int == z % pt);
    // (e % (a*pt)) / a == (e/a) % pt ; a*pt == 2^k
    lemma_pow2_adds(pos, t);
    lemma_mod_div(e, a, pt);
    lemma_mod_bound(z, pt);
}

const fn multi_exponentiate_montgomery_form_internal<const LIMBS: usize, const RHS_LIMBS: usize>(
    powers_and_exponents: &[([Uint<LIMBS>; 1 << WINDOW], Uint<RHS_LIMBS>)],
    exponent_bits: u32,
    modulus: &Odd<Uint<LIMBS>>,
    one: &Uint<LIMBS>,
    mod_neg_inv: Limb,
) -> (ret__: Uint<LIMBS>)
    requires
        1 <= exponent_bits, (exponent_bits as int) <= 64 * RHS_LIMBS, RHS_LIMBS < 0x100_0000,
        modulus.0.v() > 0, mr(*one) == 1int % modulus.0.v(),
        forall|i: int, j: int| 0 <= i < powers_and_exponents.len() && 0 <= j < 16 ==>
            mr(#[trigger] powers_and_exponents@[i].0@[j]) == pow(bres(powers_and_exponents@, i), j as nat) % modulus.0.v(),
    ensures
        mr(ret__) == ip(powers_and_exponents@, powers_and_exponents.len() as nat, exponent_bits as nat, 0) % modulus.0.v(),
{
    let starting_limb = ((exponent_bits - 1) / Limb::BITS) as usize;
    let starting_bit_in_limb = (exponent_bits - 1) % Limb::BITS;
    let starting_window = starting_bit_in_limb / WINDOW;
    proof { assert(forall|t: u32| 1 <= t <= 4 ==> (1u64 << t) >= 2 && (1u64 << t) <= 16) by (bit_vector); }
    let starting_window_mask = (1 << (starting_bit_in_limb % WINDOW + 1)) - 1;
    let ghost pe = powers_and_exponents@;
    let ghost len = pe.len() as nat;
    let ghost k = exponent_bits as nat;
    let ghost m = modulus.0.v();
    let ghost tfirst = (starting_bit_in_limb % 4 + 1) as nat;

    let mut z = *one; // 1 in Montgomery form
    let ghost mut xx: int = 1;       // mr(z) == xx % m
    proof {
        assert forall|i: int| 0 <= i < len implies pe[i].1.v() >= 0 by { lemma_val_nonneg(pe[i].1.limbs@, RHS_LIMBS as nat); }
        lemma_ip_top(pe, len, k, (64 * starting_limb + 4 * (starting_window + 1)) as nat);
    }

    let mut limb_num = starting_limb + 1;
    while limb_num > 0
        invariant
            pe == powers_and_exponents@, len == pe.len(), k == exponent_bits, m == modulus.0.v(), m > 0, 1 <= k <= 64 * RHS_LIMBS, RHS_LIMBS < 0x100_0000,
            starting_limb == (k - 1) / 64, starting_bit_in_limb == (k - 1) % 64, starting_window == starting_bit_in_limb / 4,
            tfirst == starting_bit_in_limb % 4 + 1, starting_window_mask == (1u64 << (tfirst as u32)) - 1,
            limb_num <= starting_limb + 1,
            forall|i: int| 0 <= i < len ==> pe[i].1.v() >= 0,
            forall|i: int, j: int| 0 <= i < len && 0 <= j < 16 ==> mr(#[trigger] pe[i].0@[j]) == pow(bres(pe, i), j as nat) % m,
            mr(z) == xx % m,
            xx == ip(pe, len, k, if limb_num == starting_limb + 1 { (64 * starting_limb + 4 * (starting_window + 1)) as nat } else { (64 * limb_num) as nat }),
        decreases limb_num
    {
        limb_num -= 1;

        let mut window_num = if limb_num == starting_limb {
            starting_window + 1
        } else {
            Limb::BITS / WINDOW
        };
        while window_num > 0
            invariant
                pe == powers_and_exponents@, len == pe.len(), k == exponent_bits, m == modulus.0.v(), m > 0, 1 <= k <= 64 * RHS_LIMBS, RHS_LIMBS < 0x100_0000,
                starting_limb == (k - 1) / 64, starting_bit_in_limb == (k - 1) % 64, starting_window == starting_bit_in_limb / 4,
                tfirst == starting_bit_in_limb % 4 + 1, starting_window_mask == (1u64 << (tfirst as u32)) - 1,
                limb_num <= starting_limb, window_num <= 16, limb_num == starting_limb ==> window_num <= starting_window + 1,
                forall|i: int| 0 <= i < len ==> pe[i].1.v() >= 0,
                forall|i: int, j: int| 0 <= i < len && 0 <= j < 16 ==> mr(#[trigger] pe[i].0@[j]) == pow(bres(pe, i), j as nat) % m,
                mr(z) == xx % m,
                xx == ip(pe, len, k, (64 * limb_num + 4 * window_num) as nat),
            decreases window_num
        {
            window_num -= 1;
            let ghost pos = (64 * limb_num + 4 * window_num) as nat;
            let ghost first = limb_num == starting_limb && window_num == starting_window;
            let ghost x0 = xx;

            if limb_num != starting_limb || window_num != starting_window {
                let mut i = 0;
                let ghost mut acc: int = xx;
                while i < WINDOW
                    invariant 0 <= i <= 4, m == modulus.0.v(), m > 0, mr(z) == acc % m,
                        acc == (if i == 0 { x0 } else if i == 1 { x0 * x0 } else if i == 2 { (x0 * x0) * (x0 * x0) } else if i == 3 { ((x0 * x0) * (x0 * x0)) * ((x0 * x0) * (x0 * x0)) } else { ((x0 * x0) * (x0 * x0)) * ((x0 * x0) * (x0 * x0)) * (((x0 * x0) * (x0 * x0)) * ((x0 * x0) * (x0 * x0))) }),
                    decreases 4 - i
                {
                    i += 1;
                    z = square_montgomery_form(&z, modulus, mod_neg_inv);
                    proof {
                        lemma_mul_mod_noop_general(acc, acc, m);
                        acc = acc * acc;
                    }
                }
                proof { lemma_pow16(x0); xx = pow(x0, 16); }
            } else {
                proof {
                    // first window: x0 == ip(.., pos+4) == 1
                    lemma_ip_top(pe, len, k, pos + 4);
                    lemma1_pow(16);
                    xx = pow(x0, 16);
                }
            }
            let ghost x16 = xx;

            let mut i = 0;
            while i < powers_and_exponents.len()
                invariant
                    pe == powers_and_exponents@, len == pe.len(), k == exponent_bits, m == modulus.0.v(), m > 0, 1 <= k <= 64 * RHS_LIMBS, RHS_LIMBS < 0x100_0000,
                    starting_limb == (k - 1) / 64, starting_bit_in_limb == (k - 1) % 64, starting_window == starting_bit_in_limb / 4,
                    tfirst == starting_bit_in_limb % 4 + 1, starting_window_mask == (1u64 << (tfirst as u32)) - 1,
                    limb_num <= starting_limb, window_num < 16, limb_num == starting_limb ==> window_num <= starting_window,
                    pos == 64 * limb_num + 4 * window_num, first == (limb_num == starting_limb && window_num == starting_window),
                    0 <= i <= len,
                    forall|i: int| 0 <= i < len ==> pe[i].1.v() >= 0,
                    forall|i: int, j: int| 0 <= i < len && 0 <= j < 16 ==> mr(#[trigger] pe[i].0@[j]) == pow(bres(pe, i), j as nat) % m,
                    mr(z) == xx % m,
                    xx == x16 * idg(pe, i as nat, k, pos),
                decreases len - i
            {
                let (powers, exponent) = powers_and_exponents[i];
                let w = exponent.as_limbs()[limb_num].0;
                let mut idx = (w >> (window_num * WINDOW)) & WINDOW_MASK();

                if limb_num == starting_limb && window_num == starting_window {
                    idx &= starting_window_mask;
                }
                proof {
                    assert(idx < 16) by (bit_vector) requires idx == ((w >> (window_num * 4u32)) & 15) || idx == (((w >> (window_num * 4u32)) & 15) & starting_window_mask);
                    if first {
                        assert(k == 64 * limb_num + 4 * window_num + tfirst);
                        lemma_digit_first(pe, i as int, k, limb_num as nat, window_num as nat, tfirst, idx);
                        lemma_small_mod(idx as nat, 16);
                    } else {
                        assert(pos + 4 <= k);
                        lemma_digit(pe, i as int, k, limb_num as nat, window_num as nat);
                    }
                    assert(idx as nat == ep(pe, i as int, k, pos) % 16);
                }

                // Constant-time lookup in the array of powers
                let mut power = powers[0];
                let mut j = 1;
                while j < 1 << WINDOW
                    invariant 1 <= j <= 16, idx < 16, power == (if 1 <= idx < j { powers@[idx as int] } else { powers@[0] }),
                    decreases 16 - j
                {
                    proof { assert((1u64 << 4u32) == 16u64) by (bit_vector); }
                    let choice = ConstChoice::from_word_eq(j, idx);
                    power = Uint::<LIMBS>::select(&power, &powers[j as usize], choice);
                    j += 1;
                }
                proof { assert((1u64 << 4u32) == 16u64) by (bit_vector); }

                z = mul_montgomery_form(&z, &power, modulus, mod_neg_inv);
                proof {
                    let d = ep(pe, i as int, k, pos) % 16;
                    assert(power == pe[i as int].0@[idx as int]);
                    let pw = pow(bres(pe, i as int), d);
                    assert(mr(power) == pw % m);
                    lemma_mul_mod_noop_general(xx, pw, m);
                    assert(x16 * idg(pe, (i + 1) as nat, k, pos) == (x16 * idg(pe, i as nat, k, pos)) * pw) by (nonlinear_arith)
                        requires idg(pe, (i + 1) as nat, k, pos) == idg(pe, i as nat, k, pos) * pw;
                    xx = xx * pw;
                }
                i += 1;
            }
            proof {
                lemma_window(pe, len, k, pos);
                assert(xx == ip(pe, len, k, pos));
            }
        }
    }

    z
}

} // verus!
fn main() {}
