use vstd::prelude::*;
use vstd::arithmetic::power::*;
verus! {

pub type Word = u64;
#[derive(Copy, Clone)]
pub struct Limb(pub Word);
impl Limb { pub const ZERO: Self = Limb(0); }

pub open spec fn B() -> int { 0x1_0000_0000_0000_0000 }
pub open spec fn bp(n: nat) -> int { pow(B(), n) }
pub open spec fn val(s: Seq<Limb>, n: nat) -> int
    decreases n
{ if n == 0 { 0 } else { val(s, (n - 1) as nat) + s[n - 1].0 as int * bp((n - 1) as nat) } }
pub open spec fn tv(s: Seq<Limb>, a: nat, b: nat) -> int { val(s, b) - val(s, a) }

pub proof fn lemma_val_ext(s: Seq<Limb>, t: Seq<Limb>, n: nat)
    requires forall|k: int| 0 <= k < n ==> s[k] == t[k],
    ensures val(s, n) == val(t, n),
    decreases n
{ if n > 0 { lemma_val_ext(s, t, (n - 1) as nat); } }

pub proof fn lemma_tv_ext(s: Seq<Limb>, t: Seq<Limb>, a: nat, b: nat)
    requires a <= b, forall|k: int| a <= k < b ==> s[k] == t[k],
    ensures tv(s, a, b) == tv(t, a, b),
    decreases b - a
{ if b > a { lemma_tv_ext(s, t, a, (b - 1) as nat); } }

pub proof fn lemma_tv_bound(s: Seq<Limb>, a: nat, b: nat)
    requires a <= b,
    ensures 0 <= tv(s, a, b) <= bp(b) - bp(a),
    decreases b - a
{
    if b > a {
        lemma_tv_bound(s, a, (b - 1) as nat);
        lemma_bp_succ((b - 1) as nat);
        let x = s[b - 1].0 as int; let pb = bp((b - 1) as nat);
        assert(0 <= x * pb <= (B() - 1) * pb) by (nonlinear_arith) requires 0 <= x <= B() - 1, pb > 0;
        assert((B() - 1) * pb == B() * pb - pb) by (nonlinear_arith);
    }
}

pub proof fn lemma_bp_succ(n: nat)
    ensures bp(n + 1) == B() * bp(n), bp(n) > 0, bp(0) == 1
{ reveal(pow); lemma_pow_positive(B(), n); lemma_pow0(B()); }
pub proof fn lemma_bp_add(a: nat, b: nat)
    ensures bp(a + b) == bp(a) * bp(b)
{ lemma_pow_adds(B(), a, b); }

#[derive(Copy, Clone)]
pub struct ConstChoice(pub Word);
impl ConstChoice {
    pub open spec fn wf(&self) -> bool { self.0 == 0 || self.0 == u64::MAX }
    pub open spec fn t(&self) -> bool { self.0 == u64::MAX }
    #[verifier::external_body]
    pub const fn from_word_mask(value: Word) -> (r: Self) requires value == 0 || value == u64::MAX ensures r.0 == value { unimplemented!() }
    #[verifier::external_body]
    pub const fn select_word(&self, a: Word, b: Word) -> (r: Word) requires self.wf() ensures r == if self.t() { b } else { a } { unimplemented!() }
}
pub open spec fn bb(l: Limb) -> int { if l.0 == u64::MAX { 1 } else { 0 } }
impl Limb {
    #[verifier::external_body]
    pub const fn mac(self, b: Limb, c: Limb, carry: Limb) -> (r: (Limb, Limb))
        ensures r.0.0 as int + r.1.0 as int * B() == self.0 as int + b.0 as int * c.0 as int + carry.0 as int
    { unimplemented!() }
    #[verifier::external_body]
    pub const fn adc(self, rhs: Limb, carry: Limb) -> (r: (Limb, Limb))
        ensures r.0.0 as int + r.1.0 as int * B() == self.0 as int + rhs.0 as int + carry.0 as int
    { unimplemented!() }
    #[verifier::external_body]
    pub const fn sbb(self, rhs: Limb, borrow: Limb) -> (r: (Limb, Limb))
        requires borrow.0 == 0 || borrow.0 == u64::MAX
        ensures r.1.0 == 0 || r.1.0 == u64::MAX, r.0.0 as int - bb(r.1) * B() == self.0 as int - rhs.0 as int - bb(borrow)
    { unimplemented!() }
    #[verifier::external_body]
    pub const fn select(a: Self, b: Self, c: ConstChoice) -> (r: Self) requires c.wf() ensures r == if c.t() { b } else { a } { unimplemented!() }
}

/// One Knuth-D step: the loop body of `div_rem_vartime` between `div3by2` and the quotient store.
fn knuth_step(x: &mut [Limb], x_hi: Limb, y: &[Limb], yc: usize, xi: usize, quo_in: Word, Ghost(qt): Ghost<int>) -> (ret__: Word)
    requires
        1 <= yc <= y.len(), xi < old(x).len(), xi + 1 >= yc, old(x).len() < 0x1000_0000,
        ({
            let p = (xi + 1 - yc) as nat;
            let wsc = tv(old(x)@, p, (xi + 1) as nat) + x_hi.0 as int * bp((xi + 1) as nat);
            let yv = val(y@, yc as nat);
            &&& 0 <= qt <= quo_in as int <= qt + 1
            &&& qt * yv * bp(p) <= wsc < (qt + 1) * yv * bp(p)
            &&& 0 < yv <= bp(yc as nat)
        }),
    ensures
        final(x).len() == old(x).len(),
        ret__ as int == qt,
        forall|k: int| 0 <= k < old(x).len() && !(xi + 1 - yc <= k <= xi) ==> final(x)[k] == old(x)[k],
        ({
            let p = (xi + 1 - yc) as nat;
            let wsc = tv(old(x)@, p, (xi + 1) as nat) + x_hi.0 as int * bp((xi + 1) as nat);
            tv(final(x)@, p, (xi + 1) as nat) == wsc - qt * val(y@, yc as nat) * bp(p)
        }),
{
    let mut quo = quo_in;
    let mut i;
    let ghost p = (xi + 1 - yc) as nat;
    let ghost pp = bp(p);
    let ghost xb = x@;
    let ghost yv = val(y@, yc as nat);
    let ghost wsc = tv(xb, p, (xi + 1) as nat) + x_hi.0 as int * bp((xi + 1) as nat);
    let ghost q = quo as int;
    proof { lemma_bp_succ(p); lemma_bp_succ(0); }

    // Subtract q*divisor from the dividend
    let borrow = {
        let mut carry = Limb::ZERO;
        let mut borrow = Limb::ZERO;
        let mut tmp;
        i = 0;
        while i < yc
            invariant
                1 <= yc <= y.len(), xi < x.len(), xi + 1 >= yc, x.len() == xb.len(), x.len() < 0x1000_0000,
                p == xi + 1 - yc, pp == bp(p), q == quo as int, 0 <= i <= yc,
                borrow.0 == 0 || borrow.0 == u64::MAX,
                forall|k: int| 0 <= k < x.len() && !(p <= k < p + i) ==> x@[k] == xb[k],
                tv(x@, p, (p + i) as nat) == tv(xb, p, (p + i) as nat) - q * val(y@, i as nat) * pp
                    + carry.0 as int * bp((p + i) as nat) + bb(borrow) * bp((p + i) as nat),
            decreases yc - i
        {
            let ghost x_before = x@; let ghost carry_b = carry; let ghost borrow_b = borrow;
            let (t0_, t1_) = Limb::ZERO.mac(y[i], Limb(quo), carry);
            tmp = t0_; carry = t1_;
            let (t2_, t3_) = x[xi + i + 1 - yc].sbb(tmp, borrow);
            x[xi + i + 1 - yc] = t2_; borrow = t3_;
            proof {
                let k = (p + i) as nat;
                assert(x@ =~= x_before.update(k as int, t2_));
                lemma_val_ext(x_before, x@, k);
                lemma_val_ext(x_before, x@, p);
                lemma_bp_succ(k);
                lemma_bp_add(p, i as nat);
                let pk = bp(k);
                let xo = xb[k as int].0 as int; let xn = t2_.0 as int; let tm = tmp.0 as int;
                let yi = y@[i as int].0 as int;
                let c1 = carry.0 as int; let c0 = carry_b.0 as int; let b1 = bb(borrow); let b0 = bb(borrow_b);
                assert(x_before[k as int] == xb[k as int]);
                assert(tm + c1 * B() == yi * q + c0);
                assert(xn - b1 * B() == xo - tm - b0);
                assert(xn * pk == xo * pk - (yi * q) * pk + c1 * (B() * pk) - c0 * pk + b1 * (B() * pk) - b0 * pk) by (nonlinear_arith)
                    requires tm + c1 * B() == yi * q + c0, xn - b1 * B() == xo - tm - b0;
                assert((yi * q) * pk == q * (yi * bp(i as nat)) * pp) by (nonlinear_arith) requires pk == pp * bp(i as nat);
                assert(q * (val(y@, i as nat) + yi * bp(i as nat)) * pp == q * val(y@, i as nat) * pp + q * (yi * bp(i as nat)) * pp) by (nonlinear_arith);
            }
            i += 1;
        }
        let (_t4, t5_) = x_hi.sbb(carry, borrow);
        let ghost bprev = borrow; let ghost cfin = carry;
        borrow = t5_;
        proof {
            // top limb relation
            let tt = _t4.0 as int;
            assert(tt - bb(borrow) * B() == x_hi.0 as int - cfin.0 as int - bb(bprev));
            lemma_bp_add(p, yc as nat);
            lemma_bp_succ((xi + 1) as nat);
            let pt = bp((xi + 1) as nat);
            // L' + tt*pt == wsc - q*yv*pp + bb'*B*pt
            assert(tt * pt - bb(borrow) * (B() * pt) == x_hi.0 as int * pt - cfin.0 as int * pt - bb(bprev) * pt) by (nonlinear_arith)
                requires tt - bb(borrow) * B() == x_hi.0 as int - cfin.0 as int - bb(bprev);
            assert(tv(x@, p, (xi + 1) as nat) + tt * pt == wsc - q * yv * pp + bb(borrow) * (B() * pt));
            lemma_tv_bound(x@, p, (xi + 1) as nat);
            // bounds: 0 <= L' <= pt - pp ; 0 <= tt <= B-1
            assert(0 <= tt * pt <= (B() - 1) * pt) by (nonlinear_arith) requires 0 <= tt <= B() - 1, pt > 0;
            assert((B() - 1) * pt == B() * pt - pt) by (nonlinear_arith);
            // yv*pp <= pt
            assert(yv * pp <= bp(yc as nat) * pp) by (nonlinear_arith) requires yv <= bp(yc as nat), pp > 0;
            assert(bp(yc as nat) * pp == pt) by (nonlinear_arith) requires pt == pp * bp(yc as nat);
            assert(q * yv * pp == qt * yv * pp + (q - qt) * (yv * pp)) by (nonlinear_arith);
            assert((qt + 1) * yv * pp == qt * yv * pp + yv * pp) by (nonlinear_arith);
            let l = tv(x@, p, (xi + 1) as nat);
            let tpt = tt * pt; let bpt = B() * pt;
            let rprime = wsc - qt * yv * pp;
            assert(0 <= rprime < yv * pp);
            assert(tt >= 1 ==> tpt >= pt) by (nonlinear_arith) requires tpt == tt * pt, pt > 0;
            assert(tt <= B() - 2 ==> tpt <= bpt - 2 * pt) by (nonlinear_arith) requires tpt == tt * pt, bpt == B() * pt, pt > 0;
            assert(tpt >= 0) by (nonlinear_arith) requires tpt == tt * pt, tt >= 0, pt > 0;
            let bbv = bb(borrow);
            assert(bbv == 0 || bbv == 1);
            assert(bbv == 0 ==> bbv * bpt == 0) by (nonlinear_arith);
            assert(bbv == 1 ==> bbv * bpt == bpt) by (nonlinear_arith);
            if q == qt {
                assert(l + tpt == rprime + bb(borrow) * bpt);
                assert(bb(borrow) == 0);
                assert(tt == 0);
                assert(l == rprime);
            } else {
                assert(q == qt + 1);
                assert((q - qt) * (yv * pp) == yv * pp) by (nonlinear_arith) requires q - qt == 1;
                assert(l + tpt == rprime - yv * pp + bb(borrow) * bpt);
                assert(bb(borrow) == 1);
                assert(tt == B() - 1);
                assert(tpt == bpt - pt) by (nonlinear_arith) requires tpt == tt * pt, bpt == B() * pt, tt == B() - 1;
                assert(l == pt + rprime - yv * pp);
            }
            assert(bb(borrow) == 1 <==> q == qt + 1);
            assert(l == (if bb(borrow) == 1 { pt + rprime - yv * pp } else { rprime }));
        }
        borrow
    };
    let ghost xs = x@;
    let ghost lsub = tv(xs, p, (xi + 1) as nat);
    proof {
        assert(bb(borrow) == 1 <==> quo as int == qt + 1);
        assert(lsub == (if bb(borrow) == 1 { bp((xi + 1) as nat) + (wsc - qt * yv * pp) - yv * pp } else { wsc - qt * yv * pp }));
    }

    // If the subtraction borrowed, then decrement q and add back the divisor
    quo = {
        let ct_borrow = ConstChoice::from_word_mask(borrow.0);
        let mut carry = Limb::ZERO;
        i = 0;
        while i < yc
            invariant
                1 <= yc <= y.len(), xi < x.len(), xi + 1 >= yc, x.len() == xb.len(), x.len() < 0x1000_0000,
                p == xi + 1 - yc, pp == bp(p), 0 <= i <= yc, ct_borrow.wf(),
                forall|k: int| 0 <= k < x.len() && !(p <= k < p + i) ==> x@[k] == xs[k],
                tv(x@, p, (p + i) as nat) + carry.0 as int * bp((p + i) as nat)
                    == tv(xs, p, (p + i) as nat) + (if ct_borrow.t() { 1int } else { 0int }) * val(y@, i as nat) * pp,
            decreases yc - i
        {
            let ghost x_before = x@; let ghost carry_b = carry;
            let (t0_, t1_) =
                x[xi + i + 1 - yc].adc(Limb::select(Limb::ZERO, y[i], ct_borrow), carry);
            x[xi + i + 1 - yc] = t0_; carry = t1_;
            proof {
                let k = (p + i) as nat;
                assert(x@ =~= x_before.update(k as int, t0_));
                lemma_val_ext(x_before, x@, k);
                lemma_val_ext(x_before, x@, p);
                lemma_bp_succ(k);
                lemma_bp_add(p, i as nat);
                let pk = bp(k);
                let m = if ct_borrow.t() { 1int } else { 0int };
                let xo = xs[k as int].0 as int; let xn = t0_.0 as int; let yi = y@[i as int].0 as int;
                let c1 = carry.0 as int; let c0 = carry_b.0 as int;
                assert(x_before[k as int] == xs[k as int]);
                assert(xn + c1 * B() == xo + m * yi + c0);
                assert(xn * pk + c1 * (B() * pk) == xo * pk + m * yi * pk + c0 * pk) by (nonlinear_arith)
                    requires xn + c1 * B() == xo + m * yi + c0;
                assert(m * yi * pk == m * (yi * bp(i as nat)) * pp) by (nonlinear_arith) requires pk == pp * bp(i as nat);
                assert(m * (val(y@, i as nat) + yi * bp(i as nat)) * pp == m * val(y@, i as nat) * pp + m * (yi * bp(i as nat)) * pp) by (nonlinear_arith);
            }
            i += 1;
        }
        proof {
            lemma_bp_add(p, yc as nat);
            lemma_tv_bound(x@, p, (xi + 1) as nat);
            lemma_tv_bound(xs, p, (xi + 1) as nat);
            let pt = bp((xi + 1) as nat);
            let c = carry.0 as int;
            let rprime = wsc - qt * yv * pp;
            let l2 = tv(x@, p, (xi + 1) as nat);
            let cpt = c * pt;
            assert(yv * pp <= bp(yc as nat) * pp) by (nonlinear_arith) requires yv <= bp(yc as nat), pp > 0;
            assert(bp(yc as nat) * pp == pt) by (nonlinear_arith) requires pt == pp * bp(yc as nat);
            assert((qt + 1) * yv * pp == qt * yv * pp + yv * pp) by (nonlinear_arith);
            assert(0 <= rprime < yv * pp);
            assert(c == 0 ==> cpt == 0) by (nonlinear_arith) requires cpt == c * pt;
            assert(c == 1 ==> cpt == pt) by (nonlinear_arith) requires cpt == c * pt;
            assert(c >= 2 ==> cpt >= 2 * pt) by (nonlinear_arith) requires cpt == c * pt, pt > 0;
            if ct_borrow.t() {
                assert(1 * val(y@, yc as nat) * pp == yv * pp) by (nonlinear_arith) requires yv == val(y@, yc as nat);
                assert(l2 + cpt == pt + rprime);
                assert(c == 1);
                assert(l2 == rprime);
            } else {
                assert(0 * val(y@, yc as nat) * pp == 0) by (nonlinear_arith);
                assert(l2 + cpt == rprime);
                assert(c == 0);
                assert(l2 == rprime);
            }
        }
        ct_borrow.select_word(quo, quo.wrapping_sub(1))
    };
    proof {
        lemma_tv_ext(x@, x@, 0, 0);
    }
    quo
}

} // verus!
fn main() {}
