use vstd::prelude::*;
use vstd::arithmetic::power::*;
verus! {

pub type Word = u64;
pub type WideWord = u128;

#[derive(Copy, Clone)]
pub struct Limb(pub Word);
impl Limb { pub const ZERO: Self = Limb(0); }

pub open spec fn B() -> int { 0x1_0000_0000_0000_0000 }
pub open spec fn bp(n: nat) -> int { pow(B(), n) }

pub open spec fn val(s: Seq<Limb>, n: nat) -> int
    decreases n
{
    if n == 0 { 0 } else { val(s, (n - 1) as nat) + s[n - 1].0 as int * bp((n - 1) as nat) }
}

pub proof fn lemma_val_ext(s: Seq<Limb>, t: Seq<Limb>, n: nat)
    requires forall|k: int| 0 <= k < n ==> s[k] == t[k],
    ensures val(s, n) == val(t, n),
    decreases n
{
    if n > 0 { lemma_val_ext(s, t, (n - 1) as nat); }
}

pub proof fn lemma_val_zero(s: Seq<Limb>, n: nat)
    requires forall|k: int| 0 <= k < n ==> s[k].0 == 0,
    ensures val(s, n) == 0,
    decreases n
{
    if n > 0 { lemma_val_zero(s, (n - 1) as nat); }
}

pub proof fn lemma_bp_succ(n: nat)
    ensures bp(n + 1) == B() * bp(n), bp(n) > 0, bp(0) == 1
{
    reveal(pow);
    lemma_pow_positive(B(), n);
    lemma_pow0(B());
}
pub proof fn lemma_bp_add(a: nat, b: nat)
    ensures bp(a + b) == bp(a) * bp(b)
{
    lemma_pow_adds(B(), a, b);
}

impl Limb {
    #[verifier::external_body]
    pub const fn mac(self, b: Limb, c: Limb, carry: Limb) -> (r: (Limb, Limb))
        ensures r.0.0 as int + r.1.0 as int * B() == self.0 as int + b.0 as int * c.0 as int + carry.0 as int
    { unimplemented!() }
}

pub proof fn lemma_step(vc: int, cold: int, c: int, cn: int, w: int, x: int, y: int, vr: int, p: int, t: int, pij: int, pi_: int, carry: int, carry2: int)
    requires
        pij == pi_ * t,  // B^(i+j) = B^i * B^j
        vc + carry * pij + t0(cold) == p + x * vr * pi_ ,
        w + carry2 * B() == c + x * y + carry,
    ensures true
{}
pub open spec fn t0(x: int) -> int { x }

const fn schoolbook_multiplication(lhs: &[Limb], rhs: &[Limb], lo: &mut [Limb], hi: &mut [Limb])
    requires
        lhs.len() == old(lo).len(), rhs.len() == old(hi).len(),
        lhs.len() + rhs.len() < usize::MAX,
        forall|k: int| 0 <= k < old(lo).len() ==> old(lo)[k].0 == 0,
        forall|k: int| 0 <= k < old(hi).len() ==> old(hi)[k].0 == 0,
    ensures
        final(lo).len() == lhs.len(), final(hi).len() == rhs.len(),
        val(final(lo)@ + final(hi)@, (lhs.len() + rhs.len()) as nat) == val(lhs@, lhs.len() as nat) * val(rhs@, rhs.len() as nat),
{
    if lhs.len() != lo.len() || rhs.len() != hi.len() {
        panic!("schoolbook multiplication length mismatch");
    }
    let ghost n = lhs.len() as nat;
    let ghost m = rhs.len() as nat;

    let mut i = 0;
    proof {
        lemma_val_zero(lo@ + hi@, m);
    }
    while i < lhs.len()
        invariant
            n == lhs.len(), m == rhs.len(), lo.len() == n, hi.len() == m, n + m < usize::MAX,
            i <= n,
            i == 0 ==> val(lo@ + hi@, m) == 0,
            i > 0 ==> val(lo@ + hi@, (i + m) as nat) == val(lhs@, i as nat) * val(rhs@, m),
        decreases n - i
    {
        let mut j = 0;
        let mut carry = Limb::ZERO;
        let xi = lhs[i];
        let ghost cold = lo@ + hi@;
        let ghost p = val(lhs@, i as nat) * val(rhs@, m);
        proof {
            // val(cold, i+m) == p  (for i == 0 need m-prefix zero; i+m == m)
            assert(val(cold, (i + m) as nat) == p) by {
                if i == 0 {
                    assert(val(lhs@, 0) == 0);
                    assert(0 * val(rhs@, m) == 0);
                }
            }
            lemma_bp_succ(0);
        }

        while j < rhs.len()
            invariant
                n == lhs.len(), m == rhs.len(), lo.len() == n, hi.len() == m, n + m < usize::MAX,
                i < n, j <= m, xi == lhs[i as int],
                cold.len() == n + m,
                val(cold, (i + m) as nat) == p,
                forall|k: int| i + j <= k < n + m ==> (lo@ + hi@)[k] == cold[k],
                val(lo@ + hi@, (i + j) as nat) + carry.0 as int * bp((i + j) as nat) + (val(cold, (i + m) as nat) - val(cold, (i + j) as nat))
                    == p + xi.0 as int * val(rhs@, j as nat) * bp(i as nat),
            decreases m - j
        {
            let k = i + j;
            let ghost c_before = lo@ + hi@;
            let ghost carry_before = carry;

            if k >= lhs.len() {
                let (t0_, t1_) = hi[k - lhs.len()].mac(xi, rhs[j], carry);
                hi[k - lhs.len()] = t0_; carry = t1_;
            } else {
                let (t0_, t1_) = lo[k].mac(xi, rhs[j], carry);
                lo[k] = t0_; carry = t1_;
            }
            proof {
                let c_after = lo@ + hi@;
                assert(c_after =~= c_before.update(k as int, c_after[k as int]));
                lemma_val_ext(c_before, c_after, k as nat);
                assert(c_before[k as int] == cold[k as int]);
                let pk = bp(k as nat);
                lemma_bp_succ(k as nat);
                lemma_bp_add(i as nat, j as nat);
                let w = c_after[k as int].0 as int;
                let c0 = cold[k as int].0 as int;
                let x = xi.0 as int; let y = rhs@[j as int].0 as int;
                let ca = carry.0 as int; let cb = carry_before.0 as int;
                assert(w + ca * B() == c0 + x * y + cb);
                // multiply by pk
                assert(w * pk + ca * (B() * pk) == c0 * pk + x * y * pk + cb * pk) by (nonlinear_arith)
                    requires w + ca * B() == c0 + x * y + cb;
                assert(x * y * pk == x * (y * bp(j as nat)) * bp(i as nat)) by (nonlinear_arith)
                    requires pk == bp(i as nat) * bp(j as nat);
                assert(x * (val(rhs@, j as nat) + y * bp(j as nat)) * bp(i as nat) == x * val(rhs@, j as nat) * bp(i as nat) + x * (y * bp(j as nat)) * bp(i as nat)) by (nonlinear_arith);
                assert(val(rhs@, (j + 1) as nat) == val(rhs@, j as nat) + y * bp(j as nat));
                assert(val(c_after, (k + 1) as nat) == val(c_after, k as nat) + w * pk);
                assert(val(cold, (k + 1) as nat) == val(cold, k as nat) + c0 * pk);
            }

            j += 1;
        }

        proof {
            lemma_val_ext(lo@ + hi@, lo@ + hi@, 0);
        }
        let ghost c_before = lo@ + hi@;
        if i + j >= lhs.len() {
            hi[i + j - lhs.len()] = carry;
        } else {
            lo[i + j] = carry;
        }
        proof {
            let c_after = lo@ + hi@;
            let k = (i + m) as nat;
            assert(c_after =~= c_before.update(k as int, carry));
            lemma_val_ext(c_before, c_after, k);
            assert(val(c_after, k + 1) == val(c_after, k) + carry.0 as int * bp(k));
            // val(lhs, i+1) * val(rhs)
            let x = xi.0 as int;
            assert(val(lhs@, (i + 1) as nat) == val(lhs@, i as nat) + x * bp(i as nat));
            assert((val(lhs@, i as nat) + x * bp(i as nat)) * val(rhs@, m) == p + x * val(rhs@, m) * bp(i as nat)) by (nonlinear_arith)
                requires p == val(lhs@, i as nat) * val(rhs@, m);
        }
        i += 1;
    }
    proof {
        if n == 0 {
            assert(val(lhs@, 0) == 0);
            assert(0 * val(rhs@, m) == 0);
        }
    }
}

} // verus!
fn main() {}
