use vstd::prelude::*;
use vstd::arithmetic::div_mod::*;
verus! {

pub proof fn lemma_wsub(x: u64, y: u64, w: u64)
    requires w as int == (if x as int - y as int >= 0 { x as int - y as int } else { x as int - y as int + 0x1_0000_0000_0000_0000 })
    ensures w == sub(x, y)
{
    let s = sub(x, y);
    assert(x >= y ==> s == (x - y) as u64) by (bit_vector) requires s == sub(x, y);
    assert(x < y ==> s == (0xffff_ffff_ffff_ffffu64 - (y - x) as u64 + 1) as u64) by (bit_vector) requires s == sub(x, y);
}


pub type Word = u64;
pub type WideWord = u128;

pub open spec fn B() -> int { 0x1_0000_0000_0000_0000 }

#[derive(Copy, Clone)]
pub struct ConstChoice(pub Word);

impl ConstChoice {
    pub open spec fn wf(&self) -> bool { self.0 == 0 || self.0 == u64::MAX }
    pub open spec fn t(&self) -> bool { self.0 == u64::MAX }

    #[inline]
    pub const fn from_word_lsb(value: Word) -> (r: Self)
        requires value == 0 || value == 1
        ensures r.wf(), r.t() == (value == 1)
    {
        debug_assert!(value == 0 || value == 1);
        let r = Self(value.wrapping_neg());
        r
    }

    #[inline]
    pub const fn from_word_lt(x: Word, y: Word) -> (r: Self)
        ensures r.wf(), r.t() == (x < y)
    {
        // See "Hacker's Delight" 2nd ed, section 2-12 (Comparison predicates)
        let ghost w = x.wrapping_sub(y);
        proof { lemma_wsub(x, y, w); }
        let bit = (((!x) & y) | (((!x) | y) & (x.wrapping_sub(y)))) >> (Word::BITS - 1);
        assert(bit == 0 || bit == 1) by (bit_vector) requires bit == ((((!x) & y) | (((!x) | y) & (sub(x,y)))) >> 63);
        assert((bit == 1) == (x < y)) by (bit_vector) requires bit == ((((!x) & y) | (((!x) | y) & (sub(x,y)))) >> 63);
        Self::from_word_lsb(bit)
    }

    #[inline]
    pub const fn from_word_le(x: Word, y: Word) -> (r: Self)
        ensures r.wf(), r.t() == (x <= y)
    {
        let ghost w = y.wrapping_sub(x);
        proof { lemma_wsub(y, x, w); }
        let bit = (((!x) | y) & ((x ^ y) | !(y.wrapping_sub(x)))) >> (Word::BITS - 1);
        assert(bit == 0 || bit == 1) by (bit_vector) requires bit == ((((!x) | y) & ((x ^ y) | !(sub(y,x)))) >> 63);
        assert((bit == 1) == (x <= y)) by (bit_vector) requires bit == ((((!x) | y) & ((x ^ y) | !(sub(y,x)))) >> 63);
        Self::from_word_lsb(bit)
    }

    #[inline]
    pub const fn select_word(&self, a: Word, b: Word) -> (r: Word)
        requires self.wf()
        ensures r == if self.t() { b } else { a }
    {
        let m = self.0;
        assert(m == 0 || m == u64::MAX);
        assert((a ^ (m & (a ^ b))) == if m == 0xffff_ffff_ffff_ffffu64 { b } else { a }) by (bit_vector) requires m == 0 || m == 0xffff_ffff_ffff_ffffu64;
        a ^ (self.0 & (a ^ b))
    }
}

pub assume_specification [u64::wrapping_neg] (x: u64) -> (r: u64)
    ensures r as int == if x == 0 { 0 } else { B() - x as int };

#[inline(always)]
pub const fn mulhilo(x: Word, y: Word) -> (r: (Word, Word))
    ensures r.0 as int * B() + r.1 as int == x as int * y as int
{
    assert(x as int * y as int <= 0xffff_ffff_ffff_ffff * 0xffff_ffff_ffff_ffff) by (nonlinear_arith) requires 0 <= x as int <= 0xffff_ffff_ffff_ffff, 0 <= y as int <= 0xffff_ffff_ffff_ffff;
    let res = (x as WideWord) * (y as WideWord);
    assert(((res >> 64) as u64) as int * 0x1_0000_0000_0000_0000 + (res as u64) as int == res as int) by (bit_vector);
    ((res >> Word::BITS) as Word, res as Word)
}

#[inline(always)]
pub const fn addhilo(x_hi: Word, x_lo: Word, y_hi: Word, y_lo: Word) -> (r: (Word, Word))
    requires (x_hi as int * B() + x_lo as int) + (y_hi as int * B() + y_lo as int) < B() * B()
    ensures r.0 as int * B() + r.1 as int == (x_hi as int * B() + x_lo as int) + (y_hi as int * B() + y_lo as int)
{
    let xw = ((x_hi as WideWord) << Word::BITS) | (x_lo as WideWord);
    let yw = ((y_hi as WideWord) << Word::BITS) | (y_lo as WideWord);
    assert(xw as int == x_hi as int * 0x1_0000_0000_0000_0000 + x_lo as int) by (bit_vector) requires xw == ((x_hi as u128) << 64) | (x_lo as u128);
    assert(yw as int == y_hi as int * 0x1_0000_0000_0000_0000 + y_lo as int) by (bit_vector) requires yw == ((y_hi as u128) << 64) | (y_lo as u128);
    assert(B() * B() == 0x1_0000_0000_0000_0000_0000_0000_0000_0000) by (compute);
    let res = xw + yw;
    assert(((res >> 64) as u64) as int * 0x1_0000_0000_0000_0000 + (res as u64) as int == res as int) by (bit_vector);
    ((res >> Word::BITS) as Word, res as Word)
}

pub struct Reciprocal {
    pub divisor_normalized: Word,
    pub shift: u32,
    pub reciprocal: Word,
}

impl Reciprocal {
    pub open spec fn wf(&self) -> bool {
        let d = self.divisor_normalized as int;
        let v = self.reciprocal as int;
        &&& d >= B() / 2
        &&& (B() + v) * d <= B() * B() - 1
        &&& B() * B() - 1 < (B() + v) * d + d
        &&& self.shift < 64
    }
}

pub proof fn lemma_div2by1(u1: int, u0: int, d: int, v: int, q1p: int, q0: int)
    requires
        B() / 2 <= d < B(), 0 <= v < B(), 0 <= u1 < d, 0 <= u0 < B(),
        (B() + v) * d <= B() * B() - 1,
        B() * B() - 1 < (B() + v) * d + d,
        0 <= q0 < B(),
        q1p * B() + q0 == (B() + v) * u1 + u0,
    ensures
        0 <= q1p < B(),
        ({ let rt = u1 * B() + u0 - (q1p + 1) * d;
           &&& rt >= -d
           &&& rt >= q0 + 1 - B()
           &&& (rt < B() - d || rt < q0) }),
{
    let b = B();
    let k = b * b - (b + v) * d;
    assert(1 <= k <= d);
    // q1p bounds
    assert((b + v) * u1 <= (b + v) * (d - 1)) by (nonlinear_arith) requires u1 <= d - 1, b + v >= 0;
    assert((b + v) * (d - 1) == (b + v) * d - (b + v)) by (nonlinear_arith);
    assert(q1p * b + q0 < b * b);
    assert(q1p < b) by (nonlinear_arith) requires q1p * b + q0 < b * b, q0 >= 0, b > 0;
    assert(q1p >= 0) by (nonlinear_arith) requires q1p * b + q0 >= 0, q0 < b, b > 0;
    let rt = u1 * b + u0 - (q1p + 1) * d;
    // beta * rt identity
    assert(b * rt == u1 * k + u0 * (b - d) + q0 * d - b * d) by (nonlinear_arith)
        requires rt == u1 * b + u0 - (q1p + 1) * d, k == b * b - (b + v) * d, q1p * b + q0 == (b + v) * u1 + u0;
    assert(u1 * k >= 0) by (nonlinear_arith) requires u1 >= 0, k >= 0;
    assert(u0 * (b - d) >= 0) by (nonlinear_arith) requires u0 >= 0, b - d >= 0;
    assert(q0 * d >= 0) by (nonlinear_arith) requires q0 >= 0, d >= 0;
    // lower (i)
    assert(rt >= -d) by (nonlinear_arith) requires b * rt >= -(b * d), b > 0;
    // lower (ii)
    assert((q0 - b) * d >= (q0 - b) * b) by (nonlinear_arith) requires q0 - b <= 0, d <= b;
    assert(q0 * d - b * d == (q0 - b) * d) by (nonlinear_arith);
    assert(rt >= q0 - b) by (nonlinear_arith) requires b * rt >= (q0 - b) * b, b > 0;
    // strictness: b*rt > (q0-b)*b unless equality; handle
    assert(rt >= q0 + 1 - b) by {
        if rt == q0 - b {
            // then b*rt == (q0-b)*b, but b*rt >= (q0-b)*d >= ... need strict: (q0-b)*d > (q0-b)*b since q0-b<0 and d<b
            assert((q0 - b) * d > (q0 - b) * b) by (nonlinear_arith) requires q0 - b < 0, d < b;
            assert(b * rt == b * (q0 - b));
            assert(b * (q0 - b) == (q0 - b) * b) by (nonlinear_arith);
            assert(false);
        }
    }
    // upper
    assert(u1 * k <= (d - 1) * d) by (nonlinear_arith) requires 0 <= u1 <= d - 1, 0 <= k <= d;
    assert(u0 * (b - d) <= (b - 1) * (b - d)) by (nonlinear_arith) requires 0 <= u0 <= b - 1, b - d >= 0;
    let m = if b - d >= q0 { b - d } else { q0 };
    assert((b - d) * (b - d) + q0 * d <= m * b) by (nonlinear_arith)
        requires m >= b - d, m >= q0, b - d >= 0, d >= 0, q0 >= 0;
    assert((d - 1) * d + (b - 1) * (b - d) + q0 * d - b * d == (b - d) * (b - d) + q0 * d - b) by (nonlinear_arith);
    assert(b * rt <= m * b - b);
    assert(rt < m) by (nonlinear_arith) requires b * rt <= m * b - b, b > 0;
}

#[inline(always)]
pub const fn div2by1(u1: Word, u0: Word, reciprocal: &Reciprocal) -> (out: (Word, Word))
    requires reciprocal.wf(), u1 < reciprocal.divisor_normalized
    ensures
        out.0 as int * reciprocal.divisor_normalized as int + out.1 as int == u1 as int * B() + u0 as int,
        out.1 < reciprocal.divisor_normalized,
{
    let d = reciprocal.divisor_normalized;

    proof { assert((1u64 << 63) == 0x8000_0000_0000_0000u64) by (bit_vector); assert(B() / 2 == 0x8000_0000_0000_0000int); }
    debug_assert!(d >= (1 << (Word::BITS - 1)));
    debug_assert!(u1 < d);

    let (q1, q0) = mulhilo(reciprocal.reciprocal, u1);
    proof {
        let b = B(); let v = reciprocal.reciprocal as int;
        assert((b + v) * (u1 as int) <= (b + v) * (d as int - 1)) by (nonlinear_arith) requires (u1 as int) <= d as int - 1, b + v >= 0;
        assert((b + v) * (d as int - 1) == (b + v) * (d as int) - (b + v)) by (nonlinear_arith);
        assert((b + v) * (u1 as int) == b * (u1 as int) + v * (u1 as int)) by (nonlinear_arith);
    }
    let ghost q1a = q1; 
    let (q1, q0) = addhilo(q1, q0, u1, u0);
    proof {
        assert(u1 as int * B() + u0 as int >= 0);
        let b = B(); let v = reciprocal.reciprocal as int;
        assert(q1 as int * b + q0 as int == (b + v) * (u1 as int) + u0 as int) by (nonlinear_arith)
            requires q1 as int * b + q0 as int == (v * (u1 as int)) + (u1 as int * b + u0 as int);
        lemma_div2by1(u1 as int, u0 as int, d as int, v, q1 as int, q0 as int);
    }
    let ghost q1p = q1 as int;
    let ghost rt = u1 as int * B() + u0 as int - (q1p + 1) * d as int;
    let q1 = q1.wrapping_add(1);
    let r = u0.wrapping_sub(q1.wrapping_mul(d));
    proof {
        // r == rt mod B
        let b = B(); let a = (q1p + 1) * d as int; let u0i = u0 as int; let u1i = u1 as int; let di = d as int;
        assert(q1 as int == (q1p + 1) % b);
        let m = (q1 as int * di) % b;
        lemma_mul_mod_noop_left(q1p + 1, di, b);
        assert(m == a % b);
        assert(r as int == (u0i - m) % b) by {
            if u0i - m >= 0 { lemma_small_mod((u0i - m) as nat, b as nat); }
            else { lemma_mod_add_multiples_vanish(u0i - m, b); lemma_small_mod((u0i - m + b) as nat, b as nat); }
        }
        lemma_sub_mod_noop_right(u0i, a, b);
        assert((u0i - m) % b == (u0i - a) % b);
        lemma_mod_multiples_vanish(u1i, u0i - a, b);
        assert(b * u1i + (u0i - a) == rt) by (nonlinear_arith) requires rt == u1i * b + u0i - a;
        assert(rt % b == (u0i - a) % b);
        assert(rt < b);
        if rt >= 0 { lemma_small_mod(rt as nat, b as nat); }
        else { lemma_mod_add_multiples_vanish(rt, b); lemma_small_mod((rt + b) as nat, b as nat); }
        assert(r as int == if rt >= 0 { rt } else { rt + b });
    }

    let ghost r0 = r; let ghost q10 = q1;
    let r_gt_q0 = ConstChoice::from_word_lt(q0, r);
    let q1 = r_gt_q0.select_word(q1, q1.wrapping_sub(1));
    let r = r_gt_q0.select_word(r, r.wrapping_add(d));
    proof {
        let b = B(); let di = d as int; let uu = u1 as int * b + u0 as int;
        assert((q1p + 1) * di == q1p * di + di) by (nonlinear_arith);
        assert((q1p + 2) * di == q1p * di + 2 * di) by (nonlinear_arith);
        assert(rt == uu - (q1p + 1) * di);
        assert(q10 as int == (q1p + 1) % b);
        if rt >= 0 {
            // (q1p+1)*d <= u < d*B  =>  q1p + 1 < B
            assert(q1p + 1 < b) by (nonlinear_arith) requires (q1p + 1) * di <= uu, uu < di * b, di > 0,
                uu == u1 as int * b + u0 as int;
            assert(uu < di * b) by (nonlinear_arith) requires uu == u1 as int * b + u0 as int, (u1 as int) <= di - 1, (u0 as int) < b;
            lemma_small_mod((q1p + 1) as nat, b as nat);
        } else {
            if q1p + 1 == b { lemma_mod_self_0(b); } else { lemma_small_mod((q1p + 1) as nat, b as nat); }
        }
        // state after first correction: q1*d + r == uu, 0 <= r < 2d (as ints), and r >= d ==> q1 < MAX
        assert(q1 as int * di + r as int == uu) by (nonlinear_arith)
            requires (q1 as int == q1p && r as int == rt + di) || (q1 as int == q1p + 1 && r as int == rt),
                rt == uu - (q1p + 1) * di, (q1p + 1) * di == q1p * di + di;
        assert(uu < di * b) by (nonlinear_arith) requires uu == u1 as int * b + u0 as int, (u1 as int) <= di - 1, (u0 as int) < b;
        let q1i = q1 as int; let ri = r as int;
        assert(ri >= di ==> q1i < b - 1) by (nonlinear_arith) requires q1i * di + ri == uu, uu < di * b, di > 0;
    }

    // If this was a normal `if`, we wouldn't need wrapping ops, because there would be no overflow.
    // But since we calculate both results either way, we have to wrap.
    // Added an assert to still check the lack of overflow in debug mode.
    debug_assert!(r < d || q1 < Word::MAX);
    let r_ge_d = ConstChoice::from_word_le(d, r);
    let q1 = r_ge_d.select_word(q1, q1.wrapping_add(1));
    let r = r_ge_d.select_word(r, r.wrapping_sub(d));

    proof {
        assert(q1 as int * d as int + r as int == u1 as int * B() + u0 as int);
        assert(r < d);
    }
    (q1, r)
}

} // verus!
fn main() {}
