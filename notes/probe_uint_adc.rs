use vstd::prelude::*;
use vstd::arithmetic::power2::*;
use vstd::arithmetic::power::*;
use vstd::arithmetic::mul::*;
verus! {

pub type Word = u64;
pub type WideWord = u128;

#[derive(Copy, Clone)]
pub struct Limb(pub Word);

impl Limb {
    pub const ZERO: Self = Limb(0);
    pub const BITS: u32 = 64;
}

pub open spec fn B() -> nat { 0x1_0000_0000_0000_0000 }

/// value of the first n limbs (little endian)
pub open spec fn val(s: Seq<Limb>, n: nat) -> nat
    decreases n
{
    if n == 0 { 0 } else { val(s, (n - 1) as nat) + s[n - 1].0 as nat * pow(B() as int, (n - 1) as nat) as nat }
}

pub proof fn lemma_val_ext(s: Seq<Limb>, t: Seq<Limb>, n: nat)
    requires forall|k: int| 0 <= k < n ==> s[k] == t[k],
    ensures val(s, n) == val(t, n),
    decreases n
{
    if n > 0 { lemma_val_ext(s, t, (n - 1) as nat); }
}

#[inline(always)]
pub const fn adc(lhs: Word, rhs: Word, carry: Word) -> (r: (Word, Word))
    ensures r.0 as nat + r.1 as nat * B() == lhs as nat + rhs as nat + carry as nat,
{
    let a = lhs as WideWord;
    let b = rhs as WideWord;
    let carry = carry as WideWord;
    let ret = a + b + carry;
    assert((ret as u64) as nat + ((ret >> 64) as u64) as nat * 0x1_0000_0000_0000_0000 == ret as nat) by (bit_vector);
    (ret as Word, (ret >> Word::BITS) as Word)
}

impl Limb {
    #[inline(always)]
    pub const fn adc(self, rhs: Limb, carry: Limb) -> (r: (Limb, Limb))
        ensures r.0.0 as nat + r.1.0 as nat * B() == self.0 as nat + rhs.0 as nat + carry.0 as nat,
    {
        let (res, carry) = adc(self.0, rhs.0, carry.0);
        (Limb(res), Limb(carry))
    }
}

pub struct Uint<const LIMBS: usize> {
    pub limbs: [Limb; LIMBS],
}

impl<const LIMBS: usize> Uint<LIMBS> {
    pub open spec fn v(&self) -> nat { val(self.limbs@, LIMBS as nat) }

    #[inline(always)]
    pub const fn adc(&self, rhs: &Self, mut carry: Limb) -> (r: (Self, Limb))
        ensures r.0.v() + r.1.0 as nat * pow(B() as int, LIMBS as nat) == self.v() + rhs.v() + carry.0 as nat,
    {
        let ghost carry0 = carry;
        let mut limbs = [Limb::ZERO; LIMBS];
        let mut i = 0;

        proof { lemma_pow0(B() as int); }
        while i < LIMBS
            invariant i <= LIMBS,
              val(limbs@, i as nat) + carry.0 as nat * pow(B() as int, i as nat) == val(self.limbs@, i as nat) + val(rhs.limbs@, i as nat) + carry0.0 as nat,
            decreases LIMBS - i,
        {
            let ghost old_limbs = limbs@;
            let ghost old_carry = carry;
            let (w, c) = self.limbs[i].adc(rhs.limbs[i], carry);
            limbs[i] = w;
            carry = c;
            proof {
                lemma_val_ext(old_limbs, limbs@, i as nat);
                let p = pow(B() as int, i as nat);
                lemma_pow_positive(B() as int, i as nat);
                assert(pow(B() as int, (i + 1) as nat) == B() * p) by { reveal(pow); }
                assert((w.0 as nat + c.0 as nat * B()) * p == (self.limbs[i as int].0 as nat + rhs.limbs[i as int].0 as nat + old_carry.0 as nat) * p);
                assert((w.0 as nat + c.0 as nat * B()) * p == w.0 as nat * p + c.0 as nat * (B() * p)) by (nonlinear_arith);
                assert((self.limbs[i as int].0 as nat + rhs.limbs[i as int].0 as nat + old_carry.0 as nat) * p == self.limbs[i as int].0 as nat * p + rhs.limbs[i as int].0 as nat * p + old_carry.0 as nat * p) by (nonlinear_arith);
            }
            i += 1;
        }

        (Self { limbs }, carry)
    }
}

} // verus!
fn main() {}
