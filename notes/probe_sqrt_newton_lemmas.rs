use vstd::prelude::*;
use vstd::arithmetic::div_mod::*;
verus! {

/// s is the integer square root of n
pub open spec fn is_isqrt(n: int, s: int) -> bool { 0 <= s && s * s <= n && n < (s + 1) * (s + 1) }

pub proof fn lemma_isqrt_unique(n: int, s: int, t: int)
    requires is_isqrt(n, s), is_isqrt(n, t)
    ensures s == t
{
    if s < t { assert((s + 1) * (s + 1) <= t * t) by (nonlinear_arith) requires 0 <= s + 1 <= t; }
    if t < s { assert((t + 1) * (t + 1) <= s * s) by (nonlinear_arith) requires 0 <= t + 1 <= s; }
}

/// Newton step from above stays above: y >= s, y >= 1  ==>  (y + n/y)/2 >= s
pub proof fn lemma_newton_ge(n: int, s: int, y: int)
    requires is_isqrt(n, s), y >= 1, n >= 0
    ensures (y + n / y) / 2 >= s
{
    let q = n / y;
    lemma_fundamental_div_mod(n, y); lemma_mod_bound(n, y);
    assert(y * q == q * y) by (nonlinear_arith);
    assert(n < (q + 1) * y) by (nonlinear_arith) requires n == q * y + n % y, n % y < y;
    let z = (y + q) / 2;
    lemma_fundamental_div_mod(y + q, 2);
    // 2z >= y + q - 1  => 2(z+1) >= y + q + 1
    assert(2 * (z + 1) >= y + q + 1);
    // (y + q + 1)^2 >= 4 y (q+1)  (AM-GM)
    assert((y + q + 1) * (y + q + 1) >= 4 * (y * (q + 1))) by (nonlinear_arith);
    assert(q >= 0) by { lemma_div_pos_is_pos(n, y); }
    assert((2 * (z + 1)) * (2 * (z + 1)) >= (y + q + 1) * (y + q + 1)) by (nonlinear_arith) requires 2 * (z + 1) >= y + q + 1, y + q + 1 >= 0;
    assert((2 * (z + 1)) * (2 * (z + 1)) == 4 * ((z + 1) * (z + 1))) by (nonlinear_arith);
    assert((q + 1) * y == y * (q + 1)) by (nonlinear_arith);
    assert((z + 1) * (z + 1) > n);
    // z + 1 > s  since (z+1)^2 > n >= s^2
    if z + 1 <= s { assert((z + 1) * (z + 1) <= s * s) by (nonlinear_arith) requires 0 <= z + 1 <= s; }
}

/// fix-point test: y >= 1 and next >= y  ==>  y*y <= n
pub proof fn lemma_newton_fix(n: int, y: int)
    requires y >= 1, n >= 0, (y + n / y) / 2 >= y
    ensures y * y <= n
{
    let q = n / y;
    lemma_fundamental_div_mod(n, y); lemma_mod_bound(n, y);
    lemma_fundamental_div_mod(y + q, 2);
    assert(q >= y);
    assert(y * q == q * y) by (nonlinear_arith);
    assert(q * y >= y * y) by (nonlinear_arith) requires q >= y, y >= 1;
}

/// combined: y >= s, y >= 1, next >= y  ==>  y == s
pub proof fn lemma_newton_stop(n: int, s: int, y: int)
    requires is_isqrt(n, s), y >= 1, y >= s, n >= 0, (y + n / y) / 2 >= y
    ensures y == s
{
    lemma_newton_fix(n, y);
    if y > s { assert((s + 1) * (s + 1) <= y * y) by (nonlinear_arith) requires 0 <= s + 1 <= y; }
}

/// strict descent otherwise: y > s  ==>  next < y
pub proof fn lemma_newton_descends(n: int, s: int, y: int)
    requires is_isqrt(n, s), y > s, n >= 0
    ensures (y + n / y) / 2 < y
{
    if (y + n / y) / 2 >= y { lemma_newton_stop(n, s, y); }
}

/// from s itself the next value is s or s+1 (oscillation)
pub proof fn lemma_newton_from_s(n: int, s: int)
    requires is_isqrt(n, s), s >= 1
    ensures s <= (s + n / s) / 2 <= s + 1
{
    lemma_newton_ge(n, s, s);
    let q = n / s;
    lemma_fundamental_div_mod(n, s); lemma_mod_bound(n, s);
    assert(s * q == q * s) by (nonlinear_arith);
    // q*s <= n < (s+1)^2 = s^2 + 2s + 1  => q <= s + 2
    assert((s + 1) * (s + 1) == s * s + 2 * s + 1) by (nonlinear_arith);
    assert(q <= s + 2) by (nonlinear_arith) requires q * s <= n, n < s * s + 2 * s + 1, s >= 1;
    lemma_fundamental_div_mod(s + q, 2);
}

/// (★) error recurrence: x = s + e, x' = (x + n/x)/2 = s + e'  ==>  2(s+e)e' <= e^2 + 2s
pub proof fn lemma_newton_error(n: int, s: int, x: int)
    requires is_isqrt(n, s), x >= 1, x >= s, n >= 0
    ensures 2 * x * ((x + n / x) / 2 - s) <= (x - s) * (x - s) + 2 * s
{
    let q = n / x; let xn = (x + q) / 2;
    lemma_fundamental_div_mod(n, x); lemma_mod_bound(n, x);
    lemma_fundamental_div_mod(x + q, 2);
    assert(x * q == q * x) by (nonlinear_arith);
    assert(q * x <= n);
    assert(2 * xn <= x + q);
    assert(2 * x * xn <= x * x + q * x) by (nonlinear_arith) requires 2 * xn <= x + q, x >= 1;
    assert((s + 1) * (s + 1) == s * s + 2 * s + 1) by (nonlinear_arith);
    assert(2 * x * (xn - s) == 2 * x * xn - 2 * x * s) by (nonlinear_arith);
    assert((x - s) * (x - s) == x * x - 2 * x * s + s * s) by (nonlinear_arith);
}

/// endgame: e <= 3 and s >= 2 ==> e' <= 1 ; e <= 1 ==> e' == 0
pub proof fn lemma_newton_endgame(n: int, s: int, x: int)
    requires is_isqrt(n, s), x >= s, s >= 2, n >= 0, x - s <= 3
    ensures (x + n / x) / 2 - s <= 1, x - s == 1 ==> (x + n / x) / 2 == s
{
    lemma_newton_error(n, s, x);
    lemma_newton_ge(n, s, x);
    let e = x - s; let ep = (x + n / x) / 2 - s;
    assert(e * e <= 9) by (nonlinear_arith) requires 0 <= e <= 3;
    assert(ep <= 1) by (nonlinear_arith) requires 2 * x * ep <= e * e + 2 * s, e * e <= 9, x == s + e, s >= 2, e >= 0, ep >= 0;
    if e == 1 {
        assert(e * e == 1) by (nonlinear_arith) requires e == 1;
        assert(ep <= 0) by (nonlinear_arith) requires 2 * x * ep <= 1 + 2 * s, x == s + 1, s >= 2, ep >= 0;
    }
}

} // verus!
fn main() {}
