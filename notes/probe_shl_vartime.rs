use vstd::prelude::*;
use vstd::arithmetic::power::*;
use vstd::arithmetic::power2::*;
use vstd::arithmetic::div_mod::*;
use vstd::bits::*;
verus! {
pub type Word = u64;
#[derive(Copy, Clone)]
pub struct Limb(pub Word);
pub open spec fn B() -> int { 0x1_0000_0000_0000_0000 }
pub open spec fn bp(n: nat) -> int { pow(B(), n) }
pub open spec fn val(s: Seq<Limb>, n: nat) -> int
    decreases n
{ if n == 0 { 0 } else { val(s, (n - 1) as nat) + s[n - 1].0 as int * bp((n - 1) as nat) } }
pub proof fn lemma_bp_succ(n: nat)
    ensures bp(n + 1) == B() * bp(n), bp(n) > 0, bp(0) == 1
{ reveal(pow); lemma_pow_positive(B(), n); lemma_pow0(B()); }
pub proof fn lemma_bp_add(a: nat, b: nat) ensures bp(a + b) == bp(a) * bp(b) { lemma_pow_adds(B(), a, b); }
pub proof fn lemma_val_ext(s: Seq<Limb>, t: Seq<Limb>, n: nat)
    requires forall|k: int| 0 <= k < n ==> s[k] == t[k],
    ensures val(s, n) == val(t, n),
    decreases n
{ if n > 0 { lemma_val_ext(s, t, (n - 1) as nat); } }
pub proof fn lemma_val_range(s: Seq<Limb>, n: nat)
    ensures 0 <= val(s, n) < bp(n), bp(n) > 0
    decreases n
{
    lemma_bp_succ(0);
    if n > 0 {
        lemma_val_range(s, (n - 1) as nat); lemma_bp_succ((n - 1) as nat);
        let a = s[n - 1].0 as int; let p = bp((n - 1) as nat);
        assert(0 <= a * p <= (B() - 1) * p) by (nonlinear_arith) requires 0 <= a <= B() - 1, p > 0;
        assert((B() - 1) * p + p == B() * p) by (nonlinear_arith);
    }
}
pub proof fn lemma_val_zero(s: Seq<Limb>, n: nat)
    requires forall|k: int| 0 <= k < n ==> s[k].0 == 0,
    ensures val(s, n) == 0,
    decreases n
{ if n > 0 { lemma_val_zero(s, (n - 1) as nat); assert(0 * bp((n - 1) as nat) == 0); } }
/// t = s moved up by d limbs (low d limbs zero): val(t, d + m) == val(s, m) * B^d
pub proof fn lemma_shift_up(s: Seq<Limb>, t: Seq<Limb>, d: nat, m: nat)
    requires forall|j: int| 0 <= j < d ==> t[j].0 == 0, forall|j: int| 0 <= j < m ==> t[j + d] == s[j],
    ensures val(t, d + m) == val(s, m) * bp(d),
    decreases m
{
    if m > 0 {
        lemma_shift_up(s, t, d, (m - 1) as nat);
        lemma_bp_add((m - 1) as nat, d);
        assert(t[m - 1 + d] == s[m - 1]);
        let a = s[m - 1].0 as int;
        assert((val(s, (m - 1) as nat) + a * bp((m - 1) as nat)) * bp(d) == val(s, (m - 1) as nat) * bp(d) + a * (bp((m - 1) as nat) * bp(d))) by (nonlinear_arith);
        assert((d + m - 1) as nat == ((m - 1) + d) as nat);
    } else { lemma_val_zero(t, d); assert(0 * bp(d) == 0); }
}
pub proof fn lemma_limb_shl_split(l: u64, s: u32)
    requires 0 < s < 64
    ensures ((l << s) as int) + ((l >> ((64 - s) as u32)) as int) * B() == l as int * pow2(s as nat) as int,
        ((l >> ((64 - s) as u32)) as int) < pow2(s as nat), ((l << s) as int) % (pow2(s as nat) as int) == 0
{
    let r = (64 - s) as u32;
    let hi = l >> r;
    let lo = l & (u64::MAX >> s);
    lemma2_to64();
    lemma_u64_shr_is_div(l, r as u64);
    assert(l << s == lo << s) by (bit_vector) requires 0 < s < 64, lo == l & (0xffff_ffff_ffff_ffffu64 >> s);
    assert(lo == l % (1u64 << r)) by (bit_vector) requires 0 < s < 64, r == (64 - s) as u32, lo == l & (0xffff_ffff_ffff_ffffu64 >> s);
    lemma_pow2_strictly_increases(r as nat, 64); lemma_pow2_strictly_increases(s as nat, 64);
    assert(1 * pow2(r as nat) <= u64::MAX);
    lemma_u64_shl_is_mul(1, r as u64);
    let pr = pow2(r as nat) as int; let ps = pow2(s as nat) as int;
    lemma_pow2_pos(r as nat); lemma_pow2_pos(s as nat);
    lemma_pow2_adds(r as nat, s as nat);
    assert(pr * ps == B());
    lemma_mod_bound(l as int, pr);
    assert(lo as int * ps < B()) by (nonlinear_arith) requires 0 <= lo as int, (lo as int) < pr, pr * ps == B(), ps > 0;
    lemma_u64_shl_is_mul(lo, s as u64);
    lemma_fundamental_div_mod(l as int, pr);
    assert(l as int * ps == (hi as int) * (pr * ps) + lo as int * ps) by (nonlinear_arith) requires l as int == pr * (hi as int) + lo as int;
    // hi < 2^s
    assert((hi as int) < ps) by (nonlinear_arith) requires l as int == pr * (hi as int) + lo as int, (l as int) < pr * ps, lo as int >= 0, pr > 0;
    lemma_mod_multiples_basic(lo as int, ps);
}

#[derive(Copy, Clone)]
pub struct ConstChoice(pub Word);
impl ConstChoice {
    pub const FALSE: Self = Self(0);
    pub const TRUE: Self = Self(u64::MAX);
    pub open spec fn wf(&self) -> bool { self.0 == 0 || self.0 == u64::MAX }
    pub open spec fn t(&self) -> bool { self.0 == u64::MAX }
}
pub struct ConstCtOption<T> { pub value: T, pub is_some: ConstChoice }
impl<T> ConstCtOption<T> {
    pub const fn some(value: T) -> (r: Self) ensures r.value == value, r.is_some.t(), r.is_some.wf() { Self { value, is_some: ConstChoice::TRUE } }
    pub const fn none(dummy_value: T) -> (r: Self) ensures !r.is_some.t(), r.is_some.wf() { Self { value: dummy_value, is_some: ConstChoice::FALSE } }
}
impl Limb {
    pub const ZERO: Self = Limb(0);
    pub const BITS: u32 = 64;
    #[verifier::external_body] pub const fn shl(self, shift: u32) -> (r: Self) requires shift < 64 ensures r.0 == self.0 << shift { unimplemented!() }
    #[verifier::external_body] pub const fn shr(self, shift: u32) -> (r: Self) requires shift < 64 ensures r.0 == self.0 >> shift { unimplemented!() }
    #[verifier::external_body] pub const fn bitor(self, rhs: Self) -> (r: Self) ensures r.0 == self.0 | rhs.0 { unimplemented!() }
}
#[derive(Copy, Clone)]
pub struct Uint<const LIMBS: usize> { pub limbs: [Limb; LIMBS] }
impl<const LIMBS: usize> Uint<LIMBS> {
    pub open spec fn v(&self) -> int { val(self.limbs@, LIMBS as nat) }
    pub open spec fn w() -> int { bp(LIMBS as nat) }
    #[verifier::external_body] pub const fn BITS() -> (r: u32) requires LIMBS < 0x100_0000 ensures r == 64 * LIMBS { unimplemented!() }
    #[verifier::external_body] pub const fn ZERO() -> (r: Self) ensures r.v() == 0 { unimplemented!() }

    /// Computes `self << shift`; `None` if `shift >= Self::BITS`.
    pub const fn overflowing_shl_vartime(&self, shift: u32) -> (ret__: ConstCtOption<Self>)
        requires 1 <= LIMBS < 0x100_0000
        ensures ret__.is_some.wf(), ret__.is_some.t() == ((shift as int) < 64 * LIMBS),
            ret__.is_some.t() ==> ret__.value.v() == (self.v() * pow2(shift as nat)) % Self::w()
    {
        let mut limbs = [Limb::ZERO; LIMBS];

        if shift >= Self::BITS() {
            return ConstCtOption::none(Self::ZERO());
        }

        let shift_num = (shift / Limb::BITS) as usize;
        let rem = shift % Limb::BITS;

        let mut i = shift_num;
        while i < LIMBS
            invariant shift_num <= i <= LIMBS, shift_num < LIMBS,
                forall|j: int| 0 <= j < shift_num ==> limbs@[j].0 == 0,
                forall|j: int| shift_num <= j < i ==> limbs@[j] == self.limbs@[j - shift_num],
                forall|j: int| i <= j < LIMBS ==> limbs@[j].0 == 0,
            decreases LIMBS - i
        {
            limbs[i] = self.limbs[i - shift_num];
            i += 1;
        }
        let ghost p1 = limbs@;
        let ghost sn = shift_num as nat; let ghost m = (LIMBS - shift_num) as nat;
        let ghost lowv = val(self.limbs@, m);       // the part of self that survives
        proof {
            lemma_shift_up(self.limbs@, p1, sn, m);
            assert((sn + m) as nat == LIMBS as nat);
            assert(val(p1, LIMBS as nat) == lowv * bp(sn));
            lemma_val_zero(p1, sn);
        }

        if rem == 0 {
            proof { lemma_shl_limbs_mod(self.limbs@, LIMBS as nat, sn, 0, shift as nat); lemma2_to64(); assert(lowv * bp(sn) * 1 == lowv * bp(sn)) by (nonlinear_arith); lemma_val_range(p1, LIMBS as nat); lemma_small_mod((lowv * bp(sn)) as nat, Self::w() as nat); assert(pow2(0) == 1); }
            return ConstCtOption::some(Self { limbs });
        }

        let mut carry = Limb::ZERO;

        let mut i = shift_num;
        proof { lemma_bp_succ(sn); lemma_pow2_pos(rem as nat); assert(0 * pow2(rem as nat) == 0); assert(0 * bp(sn) == 0); }
        while i < LIMBS
            invariant shift_num <= i <= LIMBS, shift_num < LIMBS, 0 < rem < 64, sn == shift_num, p1.len() == LIMBS,
                forall|j: int| 0 <= j < shift_num ==> limbs@[j].0 == 0,
                forall|j: int| i <= j < LIMBS ==> limbs@[j] == p1[j],
                (carry.0 as int) < pow2(rem as nat),
                val(limbs@, i as nat) + carry.0 as int * bp(i as nat) == val(p1, i as nat) * pow2(rem as nat),
            decreases LIMBS - i
        {
            let ghost lb = limbs@; let ghost cb = carry;
            let shifted = limbs[i].shl(rem);
            let new_carry = limbs[i].shr(Limb::BITS - rem);
            limbs[i] = shifted.bitor(carry);
            carry = new_carry;
            proof {
                let l = p1[i as int].0; let ps = pow2(rem as nat) as int;
                lemma_limb_shl_split(l, rem);
                lemma_val_ext(lb, limbs@, i as nat);
                lemma_bp_succ(i as nat);
                // OR == + since carry < 2^rem and shifted is a multiple of 2^rem
                let sh = shifted.0; let c = cb.0;
                lemma_or_add(sh, c, rem);
                let pk = bp(i as nat); let nw = limbs@[i as int].0 as int; let nc = carry.0 as int;
                assert(nw == sh as int + c as int);
                assert(sh as int + nc * B() == l as int * ps);
                assert(nw * pk + nc * (B() * pk) == (l as int * ps) * pk + c as int * pk) by (nonlinear_arith) requires nw == sh as int + c as int, sh as int + nc * B() == l as int * ps;
                assert((val(p1, i as nat) + l as int * pk) * ps == val(p1, i as nat) * ps + (l as int * ps) * pk) by (nonlinear_arith);
            }
            i += 1;
        }
        proof {
            lemma_val_range(limbs@, LIMBS as nat);
            let ps = pow2(rem as nat) as int; let c = carry.0 as int; let ww = Self::w();
            let res = val(limbs@, LIMBS as nat);
            assert(ww * c == c * ww) by (nonlinear_arith);
            lemma_fundamental_div_mod_converse(lowv * bp(sn) * ps, ww, c, res);
            lemma_shl_limbs_mod(self.limbs@, LIMBS as nat, sn, rem as nat, shift as nat);
        }

        ConstCtOption::some(Self { limbs })
    }
}

/// (a << r) | c == (a << r) + c when c < 2^r
pub proof fn lemma_or_add(sh: u64, c: u64, r: u32)
    requires 0 < r < 64, (c as int) < pow2(r as nat), (sh as int) % (pow2(r as nat) as int) == 0
    ensures (sh | c) as int == sh as int + c as int
{
    lemma_pow2_strictly_increases(r as nat, 64); lemma2_to64();
    assert(1 * pow2(r as nat) <= u64::MAX);
    lemma_u64_shl_is_mul(1, r as u64);
    let pr = 1u64 << r;
    assert(pr as int == pow2(r as nat));
    assert(sh % pr == 0);
    assert((sh | c) == sh + c) by (bit_vector) requires 0 < r < 64, pr == 1u64 << r, c < pr, sh % pr == 0;
}

/// the surviving low limbs, moved up and bit-shifted, are the value shifted modulo W
pub proof fn lemma_shl_limbs_mod(s: Seq<Limb>, n: nat, sn: nat, rem: nat, shift: nat)
    requires sn < n, rem < 64, shift == 64 * sn + rem
    ensures (val(s, n) * pow2(shift)) % bp(n) == (val(s, (n - sn) as nat) * bp(sn) * pow2(rem)) % bp(n)
{
    // val(s,n) = low + high*B^(n-sn); times B^sn*2^rem: high part is a multiple of B^n
    let m = (n - sn) as nat;
    lemma_val_split_hi(s, m, sn);
    let low = val(s, m); let high = val(s, n) - low;
    lemma_pow2_64(sn); lemma_pow2_adds(64 * sn, rem); lemma_pow2_pos(rem);
    lemma_bp_add(m, sn); lemma_bp_succ(n);
    let k = pow2(rem) as int;
    assert((m + sn) as nat == n);
    let hq = choose|hq: int| hi_mult(s, m, sn, hq);
    assert(val(s, n) * pow2(shift) == low * bp(sn) * k + bp(n) * (hq * k)) by (nonlinear_arith)
        requires val(s, n) == low + hq * bp(m), pow2(shift) as int == bp(sn) * k, bp(n) == bp(m) * bp(sn);
    lemma_mod_multiples_vanish(hq * k, low * bp(sn) * k, bp(n));
}
pub proof fn lemma_pow2_64(k: nat)
    ensures pow2(64 * k) as int == bp(k)
    decreases k
{
    lemma2_to64(); reveal(pow);
    if k > 0 { lemma_pow2_64((k - 1) as nat); lemma_pow2_adds(64, 64 * (k - 1) as nat); assert(64 * k == 64 + 64 * (k - 1)); }
    else { assert(64 * k == 0); }
}
pub open spec fn hi_mult(s: Seq<Limb>, m: nat, d: nat, hq: int) -> bool { val(s, m + d) - val(s, m) == hq * bp(m) }
/// val(s, m + d) - val(s, m) is a multiple of B^m
pub proof fn lemma_val_split_hi(s: Seq<Limb>, m: nat, d: nat)
    ensures exists|hq: int| hi_mult(s, m, d, hq)
    decreases d
{
    if d == 0 { assert(0 * bp(m) == 0); assert(hi_mult(s, m, 0, 0)); }
    else {
        let d1 = (d - 1) as nat;
        lemma_val_split_hi(s, m, d1);
        let h0 = choose|hq: int| hi_mult(s, m, d1, hq);
        lemma_bp_add(m, (d - 1) as nat);
        let a = s[m + d - 1].0 as int;
        assert((m + d - 1) as nat == (m + (d - 1)) as nat);
        assert(val(s, m + d) - val(s, m) == (h0 + a * bp((d - 1) as nat)) * bp(m)) by (nonlinear_arith)
            requires val(s, m + d) == val(s, (m + d - 1) as nat) + a * bp((m + d - 1) as nat), val(s, (m + d - 1) as nat) - val(s, m) == h0 * bp(m), bp((m + d - 1) as nat) == bp(m) * bp((d - 1) as nat);
        assert(hi_mult(s, m, d, h0 + a * bp((d - 1) as nat)));
    }
}

} // verus!
fn main() {}
