use vstd::prelude::*;
use vstd::arithmetic::power2::*;
use vstd::arithmetic::div_mod::*;
use vstd::bits::*;
verus! {
pub open spec fn B() -> int { 0x1_0000_0000_0000_0000 }

pub proof fn lemma_limb_shl_split(l: u64, s: u32)
    requires 0 < s < 64
    ensures ((l << s) as int) + ((l >> ((64 - s) as u32)) as int) * B() == l as int * pow2(s as nat) as int
{
    let r = (64 - s) as u32;
    let hi = l >> r;
    let mask = (u64::MAX >> s);           // 2^(64-s) - 1
    let lo = l & mask;
    lemma2_to64();
    // hi = l / 2^r
    lemma_u64_shr_is_div(l, r as u64);
    // l << s == lo << s, and l == hi * 2^r + lo  (bit level)
    assert(l << s == lo << s) by (bit_vector) requires 0 < s < 64, lo == l & (0xffff_ffff_ffff_ffffu64 >> s);
    assert(lo == l % (1u64 << r)) by (bit_vector) requires 0 < s < 64, r == (64 - s) as u32, lo == l & (0xffff_ffff_ffff_ffffu64 >> s);
    lemma_pow2_strictly_increases(r as nat, 64);
    lemma_pow2_strictly_increases(s as nat, 64);
    assert(1 * pow2(r as nat) <= u64::MAX);
    lemma_u64_shl_is_mul(1, r as u64);
    let pr = pow2(r as nat) as int;
    let ps = pow2(s as nat) as int;
    assert((1u64 << r) as int == pr);
    lemma_pow2_pos(r as nat); lemma_pow2_pos(s as nat);
    lemma_pow2_adds(r as nat, s as nat);
    assert(pr * ps == B());
    // lo < 2^r so lo * 2^s < 2^64
    lemma_mod_bound(l as int, pr);
    assert(lo as int * ps < B()) by (nonlinear_arith) requires 0 <= lo as int, (lo as int) < pr, pr * ps == B(), ps > 0;
    lemma_u64_shl_is_mul(lo, s as u64);
    assert((lo << s) as int == lo as int * ps);
    lemma_fundamental_div_mod(l as int, pr);
    assert(l as int == pr * (hi as int) + lo as int);
    assert(l as int * ps == (hi as int) * (pr * ps) + lo as int * ps) by (nonlinear_arith) requires l as int == pr * (hi as int) + lo as int;
}
}
fn main(){}
