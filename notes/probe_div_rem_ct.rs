use vstd::prelude::*;
use vstd::arithmetic::power::*;
use vstd::arithmetic::power2::*;
use vstd::arithmetic::div_mod::*;
verus! {

pub type Word = u64;
#[derive(Copy, Clone)]
pub struct Limb(pub Word);
impl Limb { pub const ZERO: Self = Limb(0); }

pub open spec fn B() -> int { 0x1_0000_0000_0000_0000 }
pub open spec fn bp(n: nat) -> int { pow(B(), n) }
pub open spec fn val(s: Seq<Limb>, n: nat) -> int
    decreases n
{ if n == 0 { 0 } else { val(s, (n - 1) as nat) + s[n - 1].0 as int * bp((n - 1) as nat) } }
pub open spec fn tv(s: Seq<Limb>, a: nat, b: nat) -> int { val(s, b) - val(s, a) }

pub proof fn lemma_val_ext(s: Seq<Limb>, t: Seq<Limb>, n: nat)
    requires forall|k: int| 0 <= k < n ==> s[k] == t[k],
    ensures val(s, n) == val(t, n),
    decreases n
{ if n > 0 { lemma_val_ext(s, t, (n - 1) as nat); } }

pub proof fn lemma_tv_ext(s: Seq<Limb>, t: Seq<Limb>, a: nat, b: nat)
    requires a <= b, forall|k: int| a <= k < b ==> s[k] == t[k],
    ensures tv(s, a, b) == tv(t, a, b),
    decreases b - a
{ if b > a { lemma_tv_ext(s, t, a, (b - 1) as nat); } }

pub proof fn lemma_tv_bound(s: Seq<Limb>, a: nat, b: nat)
    requires a <= b,
    ensures 0 <= tv(s, a, b) <= bp(b) - bp(a),
    decreases b - a
{
    if b > a {
        lemma_tv_bound(s, a, (b - 1) as nat);
        lemma_bp_succ((b - 1) as nat);
        let x = s[b - 1].0 as int; let pb = bp((b - 1) as nat);
        assert(0 <= x * pb <= (B() - 1) * pb) by (nonlinear_arith) requires 0 <= x <= B() - 1, pb > 0;
        assert((B() - 1) * pb == B() * pb - pb) by (nonlinear_arith);
    }
}

pub proof fn lemma_bp_succ(n: nat)
    ensures bp(n + 1) == B() * bp(n), bp(n) > 0, bp(0) == 1
{ reveal(pow); lemma_pow_positive(B(), n); lemma_pow0(B()); }
pub proof fn lemma_bp_add(a: nat, b: nat)
    ensures bp(a + b) == bp(a) * bp(b)
{ lemma_pow_adds(B(), a, b); }

#[derive(Copy, Clone)]
pub struct ConstChoice(pub Word);
impl ConstChoice {
    pub open spec fn wf(&self) -> bool { self.0 == 0 || self.0 == u64::MAX }
    pub open spec fn t(&self) -> bool { self.0 == u64::MAX }
    #[verifier::external_body]
    pub const fn from_word_mask(value: Word) -> (r: Self) requires value == 0 || value == u64::MAX ensures r.0 == value { unimplemented!() }
    #[verifier::external_body]
    pub const fn from_u32_lt(x: u32, y: u32) -> (r: Self) ensures r.wf(), r.t() == (x < y) { unimplemented!() }
    #[verifier::external_body]
    pub const fn from_u32_eq(x: u32, y: u32) -> (r: Self) ensures r.wf(), r.t() == (x == y) { unimplemented!() }
    #[verifier::external_body]
    pub const fn select_word(&self, a: Word, b: Word) -> (r: Word) requires self.wf() ensures r == if self.t() { b } else { a } { unimplemented!() }
}
pub open spec fn bb(l: Limb) -> int { if l.0 == u64::MAX { 1 } else { 0 } }
impl Limb {
    #[verifier::external_body]
    pub const fn mac(self, b: Limb, c: Limb, carry: Limb) -> (r: (Limb, Limb))
        ensures r.0.0 as int + r.1.0 as int * B() == self.0 as int + b.0 as int * c.0 as int + carry.0 as int
    { unimplemented!() }
    #[verifier::external_body]
    pub const fn adc(self, rhs: Limb, carry: Limb) -> (r: (Limb, Limb))
        ensures r.0.0 as int + r.1.0 as int * B() == self.0 as int + rhs.0 as int + carry.0 as int
    { unimplemented!() }
    #[verifier::external_body]
    pub const fn sbb(self, rhs: Limb, borrow: Limb) -> (r: (Limb, Limb))
        requires borrow.0 == 0 || borrow.0 == u64::MAX
        ensures r.1.0 == 0 || r.1.0 == u64::MAX, r.0.0 as int - bb(r.1) * B() == self.0 as int - rhs.0 as int - bb(borrow)
    { unimplemented!() }
    #[verifier::external_body]
    pub const fn select(a: Self, b: Self, c: ConstChoice) -> (r: Self) requires c.wf() ensures r == if c.t() { b } else { a } { unimplemented!() }
}


pub open spec fn min_int(a: int, b: int) -> int { if a < b { a } else { b } }

pub struct Reciprocal { pub divisor_normalized: Word, pub shift: u32, pub reciprocal: Word }
impl Reciprocal {
    pub open spec fn wf(&self) -> bool {
        let d = self.divisor_normalized as int; let v = self.reciprocal as int;
        &&& d >= B() / 2 &&& (B() + v) * d <= B() * B() - 1 &&& B() * B() - 1 < (B() + v) * d + d &&& self.shift < 64
    }
    pub open spec fn divisor(&self) -> int { self.divisor_normalized as int / pow2(self.shift as nat) as int }
    #[verifier::external_body]
    pub const fn new(divisor: NonZero<Limb>) -> (r: Self)
        requires divisor.0.0 != 0
        ensures r.wf(), r.divisor() == divisor.0.0 as int,
            divisor.0.0 as int >= B() / 2 ==> (r.shift == 0 && r.divisor_normalized == divisor.0.0)
    { unimplemented!() }
}
pub struct NonZero<T>(pub T);
pub struct CtOptNzLimb { pub value: NonZero<Limb>, pub is_some: bool }
impl CtOptNzLimb {
    #[verifier::external_body]
    pub const fn expect(self, msg: &str) -> (r: NonZero<Limb>) requires self.is_some ensures r == self.value { unimplemented!() }
}
impl Limb {
    pub const BITS: u32 = 64;
    #[verifier::external_body]
    pub const fn to_nz(self) -> (r: CtOptNzLimb) ensures r.is_some == (self.0 != 0), r.value.0 == self { unimplemented!() }
}

#[verifier::external_body]
pub const fn div2by1(u1: Word, u0: Word, reciprocal: &Reciprocal) -> (out: (Word, Word))
    requires reciprocal.wf(), u1 < reciprocal.divisor_normalized
    ensures out.0 as int * reciprocal.divisor_normalized as int + out.1 as int == u1 as int * B() + u0 as int,
        out.1 < reciprocal.divisor_normalized,
{ unimplemented!() }

#[verifier::external_body]
pub const fn div3by2(u2: Word, u1: Word, u0: Word, v1_reciprocal: &Reciprocal, v0: Word) -> (ret__: Word)
    requires v1_reciprocal.wf(), v1_reciprocal.shift == 0, u2 <= v1_reciprocal.divisor_normalized,
    ensures ({
        let v = v1_reciprocal.divisor_normalized as int * B() + v0 as int;
        let u = (u2 as int * B() + u1 as int) * B() + u0 as int;
        ret__ as int == min_int(B() - 1, u / v)
    })
{ unimplemented!() }

pub assume_specification [u32::div_ceil] (a: u32, b: u32) -> (r: u32)
    requires b != 0
    ensures r as int == (a as int + b as int - 1) / (b as int);

pub struct Uint<const LIMBS: usize> { pub limbs: [Limb; LIMBS] }

#[verifier::external_body]
pub const fn div_rem_limb_with_reciprocal<const L: usize>(u: &Uint<L>, reciprocal: &Reciprocal) -> (r: (Uint<L>, Limb))
    requires reciprocal.wf(), reciprocal.divisor() > 0
    ensures r.0.v() * reciprocal.divisor() + r.1.0 as int == u.v(), (r.1.0 as int) < reciprocal.divisor()
{ unimplemented!() }

impl<const LIMBS: usize> Uint<LIMBS> {
    pub open spec fn v(&self) -> int { val(self.limbs@, LIMBS as nat) }

    #[verifier::external_body]
    #[verifier::external_body]
    pub const fn BITS() -> (r: u32) requires LIMBS < 0x100_0000 ensures r as int == 64 * LIMBS { unimplemented!() }
    #[verifier::external_body]
    pub const fn ZERO() -> (r: Self) ensures forall|k: int| 0 <= k < LIMBS ==> r.limbs@[k].0 == 0 { unimplemented!() }
    #[verifier::external_body]
    pub const fn new(limbs: [Limb; LIMBS]) -> (r: Self) ensures r.limbs == limbs { unimplemented!() }
    #[verifier::external_body]
    pub const fn to_limbs(self) -> (r: [Limb; LIMBS]) ensures r == self.limbs { unimplemented!() }
    #[verifier::external_body]
    pub const fn from_word(w: Word) -> (r: Self) requires LIMBS >= 1 ensures r.v() == w as int { unimplemented!() }
    #[verifier::external_body]
    pub const fn resize<const T: usize>(&self) -> (r: Uint<T>) ensures T >= LIMBS ==> r.v() == self.v() { unimplemented!() }
    #[verifier::external_body]
    pub const fn bits(&self) -> (r: u32)
        requires 1 <= LIMBS < 0x100_0000
        ensures r as int <= 64 * LIMBS, (r == 0) == (self.v() == 0), self.v() < pow2(r as nat), r > 0 ==> self.v() >= pow2((r - 1) as nat)
    { unimplemented!() }
    #[verifier::external_body]
    pub const fn shl(&self, shift: u32) -> (r: Self)
        requires (shift as int) < 64 * LIMBS
        ensures r.v() == (self.v() * pow2(shift as nat)) % bp(LIMBS as nat)
    { unimplemented!() }
    #[verifier::external_body]
    pub const fn shr(&self, shift: u32) -> (r: Self)
        requires (shift as int) < 64 * LIMBS
        ensures r.v() == self.v() / (pow2(shift as nat) as int)
    { unimplemented!() }
    #[verifier::external_body]
    pub const fn shl_limb(&self, shift: u32) -> (r: (Self, Limb))
        requires shift < 64
        ensures val(r.0.limbs@, LIMBS as nat) + r.1.0 as int * bp(LIMBS as nat) == val(self.limbs@, LIMBS as nat) * pow2(shift as nat)
    { unimplemented!() }
    #[verifier::external_body]
    pub const fn div_rem_limb(&self, rhs: NonZero<Limb>) -> (r: (Self, Limb))
        requires rhs.0.0 != 0
        ensures r.0.v() * rhs.0.0 as int + r.1.0 as int == self.v(), r.1.0 < rhs.0.0
    { unimplemented!() }
    #[verifier::external_body]
    pub const fn bits_vartime(&self) -> (r: u32)
        requires 1 <= LIMBS < 0x100_0000
        ensures r as int <= 64 * LIMBS, (r == 0) == (self.v() == 0), self.v() < pow2(r as nat), r > 0 ==> self.v() >= pow2((r - 1) as nat)
    { unimplemented!() }
    #[verifier::external_body]
    pub const fn shl_limb_vartime(&self, shift: u32, limbs_num: usize) -> (r: (Self, Limb))
        requires shift < 64, 1 <= limbs_num <= LIMBS
        ensures val(r.0.limbs@, limbs_num as nat) + r.1.0 as int * bp(limbs_num as nat) == val(self.limbs@, limbs_num as nat) * pow2(shift as nat),
            forall|k: int| limbs_num <= k < LIMBS ==> r.0.limbs@[k] == (if shift == 0 { self.limbs@[k] } else { Limb(0) })
    { unimplemented!() }
    #[verifier::external_body]
    pub const fn shr_limb_vartime(&self, shift: u32, limbs_num: usize) -> (r: Self)
        requires shift < 64, 1 <= limbs_num <= LIMBS
        ensures val(r.limbs@, limbs_num as nat) == val(self.limbs@, limbs_num as nat) / (pow2(shift as nat) as int),
            forall|k: int| limbs_num <= k < LIMBS ==> r.limbs@[k] == (if shift == 0 { self.limbs@[k] } else { Limb(0) })
    { unimplemented!() }
}
pub proof fn lemma_knuth_digit(wv: int, y: int, u3: int, v2: int, wl: int, yl: int, e: int, q: int)
    requires
        e >= 1, wv == u3 * e + wl, 0 <= wl < e, y == v2 * e + yl, 0 <= yl < e,
        0 <= wv < y * B(), 2 * y >= B() * B() * e, u3 >= 0, v2 > 0,
        q == min_int(B() - 1, u3 / v2),
    ensures
        wv / y <= q <= wv / y + 1, 0 <= wv / y <= B() - 1,
{
    let b = B();
    let qt = wv / y;
    assert(y > 0) by (nonlinear_arith) requires 2 * y >= b * b * e, e >= 1, b == B();
    lemma_fundamental_div_mod(wv, y);
    lemma_mod_bound(wv, y);
    lemma_div_pos_is_pos(wv, y);
    assert(y * qt == qt * y) by (nonlinear_arith);
    assert(qt * y <= wv < (qt + 1) * y) by (nonlinear_arith) requires wv == y * qt + wv % y, 0 <= wv % y < y;
    // qt <= b-1
    assert(qt < b) by (nonlinear_arith) requires qt * y <= wv, wv < y * b, y > 0;
    let q3 = u3 / v2;
    lemma_fundamental_div_mod(u3, v2);
    lemma_mod_bound(u3, v2);
    lemma_div_pos_is_pos(u3, v2);
    assert(v2 * q3 == q3 * v2) by (nonlinear_arith);
    assert(q3 * v2 <= u3 < (q3 + 1) * v2) by (nonlinear_arith) requires u3 == v2 * q3 + u3 % v2, 0 <= u3 % v2 < v2;
    // qt <= q3
    assert(qt * (v2 * e) <= qt * y) by (nonlinear_arith) requires qt >= 0, y == v2 * e + yl, yl >= 0;
    assert(qt * (v2 * e) == qt * v2 * e) by (nonlinear_arith);
    assert(qt * v2 < u3 + 1) by (nonlinear_arith) requires qt * v2 * e <= wv, wv == u3 * e + wl, wl < e, e >= 1;
    assert(qt < q3 + 1) by (nonlinear_arith) requires qt * v2 <= u3, u3 < (q3 + 1) * v2, v2 > 0;
    assert(qt <= q);
    // q <= qt + 1
    if q >= qt + 2 {
        assert(q <= q3);
        assert(q * v2 <= u3) by (nonlinear_arith) requires q <= q3, q3 * v2 <= u3, v2 > 0;
        assert((qt + 2) * v2 <= q * v2) by (nonlinear_arith) requires qt + 2 <= q, v2 > 0;
        assert((qt + 2) * v2 * e <= u3 * e) by (nonlinear_arith) requires (qt + 2) * v2 <= u3, e >= 1;
        // (qt+2)*v2*e = (qt+2)*(y - yl)
        assert((qt + 2) * v2 * e == (qt + 2) * y - (qt + 2) * yl) by (nonlinear_arith) requires y == v2 * e + yl;
        assert((qt + 2) * yl <= (qt + 2) * e) by (nonlinear_arith) requires qt + 2 >= 0, yl <= e;
        // wv >= u3*e >= (qt+2)*y - (qt+2)*e ; wv < (qt+1)*y  => y < (qt+2)*e
        assert((qt + 2) * y == (qt + 1) * y + y) by (nonlinear_arith);
        assert(y < (qt + 2) * e);
        assert((qt + 2) * e <= (b + 1) * e) by (nonlinear_arith) requires qt + 2 <= b + 1, e >= 1;
        assert(b * b * e > 2 * ((b + 1) * e)) by (nonlinear_arith) requires e >= 1, b == 0x1_0000_0000_0000_0000;
        assert(false);
    }
}

pub proof fn lemma_pow2_64k(k: nat)
    ensures pow2(64 * k) as int == bp(k)
    decreases k
{
    lemma2_to64();
    lemma_bp_succ(0);
    if k > 0 {
        lemma_pow2_64k((k - 1) as nat);
        lemma_pow2_adds(64, 64 * (k - 1) as nat);
        lemma_bp_succ((k - 1) as nat);
        assert(64 * k == 64 + 64 * (k - 1));
    } else {
        assert(64 * k == 0);
    }
}

/// if val(s, n) < B^k (k <= n) then the upper limbs do not contribute
pub proof fn lemma_val_small(s: Seq<Limb>, k: nat, n: nat)
    requires k <= n, val(s, n) < bp(k),
    ensures val(s, k) == val(s, n), forall|j: int| k <= j < n ==> s[j].0 == 0,
    decreases n - k
{
    if n > k {
        lemma_tv_bound(s, 0, (n - 1) as nat);
        lemma_bp_succ((n - 1) as nat);
        let top = s[n - 1].0 as int; let pn = bp((n - 1) as nat);
        assert(val(s, 0) == 0);
        lemma_pow_increases(B() as nat, k, (n - 1) as nat);
        assert(bp(k) <= pn);
        assert(top >= 1 ==> top * pn >= pn) by (nonlinear_arith) requires pn > 0;
        assert(top == 0);
        assert(0 * pn == 0);
        assert(top * pn == 0);
        lemma_val_small(s, k, (n - 1) as nat);
    }
}

/// shifting a limb sequence down by d positions
pub proof fn lemma_shift_down(s: Seq<Limb>, t: Seq<Limb>, d: nat, n: nat, m: nat)
    requires m + d <= n, forall|j: int| 0 <= j < m ==> t[j] == s[j + d],
    ensures val(t, m) * bp(d) == tv(s, d, m + d),
    decreases m
{
    if m > 0 {
        lemma_shift_down(s, t, d, n, (m - 1) as nat);
        lemma_bp_add((m - 1) as nat, d);
        let a = t[m - 1].0 as int;
        assert(t[m - 1] == s[m - 1 + d]);
        assert((val(t, (m - 1) as nat) + a * bp((m - 1) as nat)) * bp(d) == val(t, (m - 1) as nat) * bp(d) + a * (bp((m - 1) as nat) * bp(d))) by (nonlinear_arith);
        assert((m - 1 + d) as nat == (m + d - 1) as nat);
    } else {
        assert(0 * bp(d) == 0);
    }
}

pub proof fn lemma_val_zero_tail(s: Seq<Limb>, k: nat, n: nat)
    requires k <= n, forall|j: int| k <= j < n ==> s[j].0 == 0,
    ensures val(s, n) == val(s, k),
    decreases n - k
{
    if n > k { lemma_val_zero_tail(s, k, (n - 1) as nat); assert(0 * bp((n - 1) as nat) == 0); }
}

pub open spec fn tvq(s: Seq<Limb>, p: nat, n: nat) -> int
    decreases n
{ if n <= p { 0 } else { tvq(s, p, (n - 1) as nat) + s[n - 1].0 as int * bp((n - 1 - p) as nat) } }

pub proof fn lemma_tv_factor(s: Seq<Limb>, p: nat, n: nat)
    requires p <= n
    ensures tv(s, p, n) == bp(p) * tvq(s, p, n), tvq(s, p, n) >= 0
    decreases n - p
{
    if n > p {
        lemma_tv_factor(s, p, (n - 1) as nat);
        lemma_bp_add(p, (n - 1 - p) as nat);
        lemma_bp_succ((n - 1 - p) as nat);
        let a = s[n - 1].0 as int; let e = bp((n - 1 - p) as nat);
        assert((p + (n - 1 - p)) as nat == (n - 1) as nat);
        assert(bp(p) * (tvq(s, p, (n - 1) as nat) + a * e) == bp(p) * tvq(s, p, (n - 1) as nat) + a * (bp(p) * e)) by (nonlinear_arith);
        assert(a * e >= 0) by (nonlinear_arith) requires a >= 0, e > 0;
    } else {
        assert(bp(p) * 0 == 0);
    }
}


/// value of the top (m) limbs of s (length n), unscaled: tvq(s, n-m, n)
pub proof fn lemma_top_limbs(y: Seq<Limb>, n: nat, yc: nat, m: nat, yv: int)
    requires 1 <= yc <= m <= n, val(y, n) == yv * bp((n - yc) as nat), forall|j: int| 0 <= j < n - yc ==> y[j].0 == 0,
    ensures tvq(y, (n - m) as nat, n) == yv * bp((m - yc) as nat)
{
    let lo = (n - m) as nat;
    lemma_tv_factor(y, lo, n);
    lemma_val_zero_tail(y, 0, lo);
    assert(val(y, 0) == 0);
    lemma_bp_add(lo, (m - yc) as nat);
    assert((lo + (m - yc)) as nat == (n - yc) as nat);
    lemma_bp_succ(lo);
    let t = tvq(y, lo, n); let e = bp((m - yc) as nat); let pl = bp(lo);
    assert(pl * t == yv * (pl * e));
    assert(yv * (pl * e) == pl * (yv * e)) by (nonlinear_arith);
    assert(t == yv * e) by (nonlinear_arith) requires pl * t == pl * (yv * e), pl > 0;
}

/// tvq over a window equals val of the corresponding subrange
pub proof fn lemma_tvq_sub(s: Seq<Limb>, p: nat, n: nat)
    requires p <= n <= s.len()
    ensures tvq(s, p, n) == val(s.subrange(p as int, s.len() as int), (n - p) as nat)
    decreases n - p
{
    if n > p {
        lemma_tvq_sub(s, p, (n - 1) as nat);
        let t = s.subrange(p as int, s.len() as int);
        assert(t[n - 1 - p] == s[n - 1]);
        assert((n - p - 1) as nat == (n - 1 - p) as nat);
    }
}

/// if val(s, n) is a multiple of B^lo then the low `lo` limbs are zero
pub proof fn lemma_val_small_low(s: Seq<Limb>, lo: nat, n: nat, yv: int)
    requires lo <= n, val(s, n) == yv * bp(lo),
    ensures forall|j: int| 0 <= j < lo ==> s[j].0 == 0,
{
    // val(s,n) = val(s,lo) + tv(s,lo,n), tv multiple of B^lo, 0 <= val(s,lo) < B^lo  => val(s,lo) == 0
    lemma_tv_factor(s, lo, n);
    lemma_tv_bound(s, 0, lo); assert(val(s, 0) == 0);
    lemma_bp_succ(lo);
    let a = val(s, lo); let t = tvq(s, lo, n); let pl = bp(lo);
    assert(a == pl * (yv - t)) by (nonlinear_arith) requires a + pl * t == yv * pl;
    assert(yv - t == 0) by (nonlinear_arith) requires a == pl * (yv - t), 0 <= a < pl, pl > 0;
    assert(a == 0) by (nonlinear_arith) requires a == pl * (yv - t), yv - t == 0;
    lemma_val_zero_limbs(s, lo);
}
pub proof fn lemma_val_zero_limbs(s: Seq<Limb>, m: nat)
    requires val(s, m) == 0
    ensures forall|j: int| 0 <= j < m ==> s[j].0 == 0
    decreases m
{
    if m > 0 {
        lemma_tv_bound(s, 0, (m - 1) as nat); assert(val(s, 0) == 0);
        lemma_bp_succ((m - 1) as nat);
        let a = s[m - 1].0 as int; let pm = bp((m - 1) as nat);
        assert(a * pm >= 0) by (nonlinear_arith) requires a >= 0, pm > 0;
        assert(a >= 1 ==> a * pm >= pm) by (nonlinear_arith) requires pm > 0;
        assert(a == 0);
        assert(0 * pm == 0);
        lemma_val_zero_limbs(s, (m - 1) as nat);
    }
}

pub open spec fn maxn(a: nat, b: nat) -> nat { if a >= b { a } else { b } }

impl<const LIMBS: usize> Uint<LIMBS> {
    pub const fn div_rem(&self, rhs: &NonZero<Self>) -> (ret__: (Self, Self))
        requires 1 <= LIMBS < 0x100_0000, rhs.0.v() != 0,
        ensures ret__.0.v() * rhs.0.v() + ret__.1.v() == self.v(), 0 <= ret__.1.v() < rhs.0.v(),
    {
        // Statically determined short circuit for Uint<1>
        if LIMBS == 1 {
            proof {
                lemma_bp_succ(0);
                let a0 = rhs.0.limbs@[0].0 as int;
                assert(val(rhs.0.limbs@, 0) == 0);
                assert(a0 * 1 == a0) by (nonlinear_arith);
            }
            let (quo, rem_limb) = self.div_rem_limb(rhs.0.limbs[0].to_nz().expect("zero divisor"));
            let mut rem = Self::ZERO();
            rem.limbs[0] = rem_limb;
            proof {
                let r0 = rem_limb.0 as int;
                assert(val(rem.limbs@, 0) == 0);
                assert(r0 * 1 == r0) by (nonlinear_arith);
            }
            return (quo, rem);
        }

        let dbits = rhs.0.bits();
        assert!(dbits > 0, "zero divisor");
        let dwords = dbits.div_ceil(Limb::BITS);
        let lshift = (Limb::BITS - (dbits % Limb::BITS)) % Limb::BITS;
        let ghost n = LIMBS as nat;
        let ghost yc = dwords as nat;
        let ghost rv = rhs.0.v();
        let ghost sv = self.v();
        let ghost s2 = pow2(lshift as nat) as int;
        let ghost yv = rv * s2;
        let ghost xv = sv * s2;

        // Shift entire divisor such that the high bit is set
        let mut y = rhs.0.shl(Self::BITS() - dbits).to_limbs();
        // Shift the dividend to align the words
        let (x, mut x_hi) = self.shl_limb(lshift);
        let mut x = x.to_limbs();
        let mut xi = LIMBS - 1;
        let mut x_lo = x[LIMBS - 1];
        let mut i;
        let mut carry;

        proof {
            lemma_tv_bound(rhs.0.limbs@, 0, n); lemma_tv_bound(self.limbs@, 0, n);
            assert(val(rhs.0.limbs@, 0) == 0); assert(val(self.limbs@, 0) == 0);
            lemma_bp_succ(0); lemma_pow2_pos(lshift as nat);
            lemma_pow2_64k(yc); lemma_pow2_64k(n); lemma_pow2_64k((n - yc) as nat);
            assert(dbits as int + lshift as int == 64 * yc);
            assert(1 <= yc <= n);
            lemma_pow2_adds((dbits - 1) as nat, lshift as nat);
            lemma_pow2_adds(dbits as nat, lshift as nat);
            lemma_pow2_unfold((64 * yc) as nat);
            assert((dbits - 1 + lshift) as nat == (64 * yc - 1) as nat);
            assert(rv * s2 >= pow2((dbits - 1) as nat) * s2) by (nonlinear_arith) requires rv >= pow2((dbits - 1) as nat), s2 > 0;
            assert(rv * s2 < pow2(dbits as nat) * s2) by (nonlinear_arith) requires rv < pow2(dbits as nat), s2 > 0;
            assert(2 * yv >= bp(yc) && yv < bp(yc));
            // y = rv * 2^(BITS - dbits) = yv * B^(n - yc), no wrap
            let sh = (64 * n - dbits) as nat;
            assert(sh == lshift as nat + 64 * (n - yc) as nat);
            lemma_pow2_adds(lshift as nat, 64 * (n - yc) as nat);
            assert(pow2(sh) as int == s2 * bp((n - yc) as nat));
            assert(rv * (s2 * bp((n - yc) as nat)) == yv * bp((n - yc) as nat)) by (nonlinear_arith) requires yv == rv * s2;
            lemma_bp_add(yc, (n - yc) as nat); lemma_bp_succ((n - yc) as nat);
            assert(yv * bp((n - yc) as nat) < bp(yc) * bp((n - yc) as nat)) by (nonlinear_arith) requires yv < bp(yc), bp((n - yc) as nat) > 0;
            lemma_bp_succ((n - yc) as nat);
            assert(yv * bp((n - yc) as nat) >= 0) by (nonlinear_arith) requires yv >= 0, bp((n - yc) as nat) > 0;
            lemma_small_mod((yv * bp((n - yc) as nat)) as nat, bp(n) as nat);
            assert(val(y@, n) == yv * bp((n - yc) as nat));
        }

        let ghost mut k: nat = n;
        let ghost mut qacc: int = 0;
        proof {
            // top limb of y normalised
            lemma_tv_bound(y@, 0, (n - 1) as nat); assert(val(y@, 0) == 0);
            lemma_bp_succ((n - 1) as nat);
            let top = y@[n - 1].0 as int; let pt = bp((n - 1) as nat);
            assert(2 * (yv * bp((n - yc) as nat)) >= bp(yc) * bp((n - yc) as nat)) by (nonlinear_arith)
                requires 2 * yv >= bp(yc), bp((n - yc) as nat) > 0;
            assert(2 * top >= B() - 1) by (nonlinear_arith)
                requires 2 * (val(y@, (n - 1) as nat) + top * pt) >= B() * pt, val(y@, (n - 1) as nat) <= pt - 1, pt > 0;
            assert(top >= B() / 2);
            lemma_val_small_low(y@, (n - yc) as nat, n, yv);
            // initial remainder bound
            lemma2_to64(); lemma_pow2_unfold(64);
            if lshift < 63 { lemma_pow2_strictly_increases(lshift as nat, 63); }
            assert(s2 <= 0x8000_0000_0000_0000);
            lemma_bp_add(yc, (n - yc + 1) as nat);
            lemma_bp_succ(n); lemma_bp_succ((n - yc + 1) as nat);
            assert(xv < s2 * bp(n)) by (nonlinear_arith) requires xv == sv * s2, sv < bp(n), s2 > 0;
            assert(s2 * bp(n) <= 0x8000_0000_0000_0000 * bp(n)) by (nonlinear_arith) requires s2 <= 0x8000_0000_0000_0000, bp(n) > 0;
            assert(2 * (yv * bp((n - yc + 1) as nat)) >= bp(yc) * bp((n - yc + 1) as nat)) by (nonlinear_arith)
                requires 2 * yv >= bp(yc), bp((n - yc + 1) as nat) > 0;
            assert(0 * yv == 0);
            assert(maxn(n, (yc - 1) as nat) == n);
            assert((n + 1 - yc) as nat == (n - yc + 1) as nat);
        }
        let reciprocal = Reciprocal::new(y[LIMBS - 1].to_nz().expect("zero divisor"));

        while xi > 0
            invariant
                2 <= LIMBS < 0x100_0000, n == LIMBS, 1 <= yc <= n, yc == dwords, xi < LIMBS,
                k == maxn((xi + 1) as nat, (yc - 1) as nat), 1 <= k <= n,
                val(y@, n) == yv * bp((n - yc) as nat), forall|j: int| 0 <= j < n - yc ==> y@[j].0 == 0,
                2 * yv >= bp(yc), yv < bp(yc), yv > 0,
                reciprocal.wf(), reciprocal.shift == 0, reciprocal.divisor_normalized == y@[n - 1].0,
                xv == qacc * yv + x_hi.0 as int * bp(k) + val(x@, k),
                x_hi.0 as int * bp(k) + val(x@, k) < yv * bp((k + 1 - yc) as nat),
                tv(x@, k, n) == qacc * bp((yc - 1) as nat),
                x_lo == x@[k - 1],
            decreases xi
        {
            let ghost xb = x@;
            let ghost hb = x_hi;
            let ghost active = xi + 1 >= yc;
            let ghost m = (xi + 1) as nat;                       // number of limbs processed
            let ghost ys = y@.subrange(n - m, n as int);          // divisor limbs used: ys[i] == y[LIMBS - xi + i - 1]
            let ghost dd = val(ys, m);                            // their value
            let ghost rem = hb.0 as int * bp(m) + val(xb, m);
            proof {
                lemma_bp_succ(0); lemma_bp_succ(k); lemma_bp_succ((yc - 1) as nat);
                lemma_tv_bound(xb, 0, k); assert(val(xb, 0) == 0);
                lemma_tv_bound(y@, 0, (n - 1) as nat); assert(val(y@, 0) == 0);
                lemma_tvq_sub(y@, (n - m) as nat, n);
                // x_hi <= y_top in both phases
                let top = y@[n - 1].0 as int; let h = hb.0 as int;
                if active {
                    assert(k == m);
                    lemma_top_limbs(y@, n, yc, m, yv);
                    assert(dd == yv * bp((m - yc) as nat));
                } else {
                    assert(k == yc - 1);
                    assert(yv * bp(0) == yv) by (nonlinear_arith) requires bp(0) == 1;
                }
                // yv < (top+1)*B^(yc-1): from val(y,n) = yv*B^(n-yc) and top limb
                lemma_bp_add((yc - 1) as nat, (n - yc) as nat);
                assert(((yc - 1) + (n - yc)) as nat == (n - 1) as nat);
                lemma_bp_succ((n - yc) as nat);
                assert(yv < (top + 1) * bp((yc - 1) as nat)) by (nonlinear_arith)
                    requires yv * bp((n - yc) as nat) == val(y@, (n - 1) as nat) + top * bp((n - 1) as nat),
                        val(y@, (n - 1) as nat) <= bp((n - 1) as nat) - 1,
                        bp((n - 1) as nat) == bp((yc - 1) as nat) * bp((n - yc) as nat), bp((n - yc) as nat) > 0;
                if active {
                    // h*B^k <= Rem < yv*B^(k+1-yc) < (top+1)*B^(yc-1)*B^(k+1-yc) = (top+1)*B^k
                    lemma_bp_add((yc - 1) as nat, (k + 1 - yc) as nat);
                    assert(((yc - 1) + (k + 1 - yc)) as nat == k);
                    lemma_bp_succ((k + 1 - yc) as nat);
                    assert(yv * bp((k + 1 - yc) as nat) < (top + 1) * bp(k)) by (nonlinear_arith)
                        requires yv < (top + 1) * bp((yc - 1) as nat), bp(k) == bp((yc - 1) as nat) * bp((k + 1 - yc) as nat), bp((k + 1 - yc) as nat) > 0;
                    assert(h < top + 1) by (nonlinear_arith) requires h * bp(k) < (top + 1) * bp(k), bp(k) > 0;
                } else {
                    assert(h < top + 1) by (nonlinear_arith) requires h * bp((yc - 1) as nat) < (top + 1) * bp((yc - 1) as nat), bp((yc - 1) as nat) > 0;
                }
            }
            // Divide high dividend words by the high divisor word to estimate the quotient word
            let mut quo = div3by2(x_hi.0, x_lo.0, x[xi - 1].0, &reciprocal, y[LIMBS - 2].0);

            // This loop is a no-op once xi is smaller than the number of words in the divisor
            let done = ConstChoice::from_u32_lt(xi as u32, dwords - 1);
            quo = done.select_word(quo, 0);
            let ghost q = quo as int;
            let ghost qt: int = if active { rem / dd } else { 0 };
            proof {
                assert(done.t() == !active);
                if active {
                    let top = y@[n - 1].0 as int; let y2 = y@[n - 2].0 as int;
                    let hh = hb.0 as int; let x1 = xb[xi as int].0 as int; let x0 = xb[xi - 1].0 as int;
                    let u3 = (hh * B() + x1) * B() + x0;
                    let v2 = top * B() + y2;
                    let e = bp((xi - 1) as nat);
                    let wl = val(xb, (xi - 1) as nat);
                    let yl = val(ys, (xi - 1) as nat);
                    lemma_tv_bound(xb, 0, (xi - 1) as nat); lemma_tv_bound(ys, 0, (xi - 1) as nat); assert(val(ys, 0) == 0);
                    lemma_bp_succ((xi - 1) as nat); lemma_bp_succ(xi as nat);
                    assert(ys[xi as int] == y@[n - 1]); assert(ys[xi - 1] == y@[n - 2]);
                    assert(val(xb, m) == val(xb, xi as nat) + x1 * bp(xi as nat));
                    assert(val(xb, xi as nat) == wl + x0 * e);
                    assert(val(ys, m) == val(ys, xi as nat) + top * bp(xi as nat));
                    assert(val(ys, xi as nat) == yl + y2 * e);
                    assert(rem == u3 * e + wl) by (nonlinear_arith)
                        requires rem == hh * bp(m) + wl + x0 * e + x1 * bp(xi as nat), bp(m) == B() * bp(xi as nat), bp(xi as nat) == B() * e,
                            u3 == (hh * B() + x1) * B() + x0;
                    assert(dd == v2 * e + yl) by (nonlinear_arith)
                        requires dd == yl + y2 * e + top * bp(xi as nat), bp(xi as nat) == B() * e, v2 == top * B() + y2;
                    assert(u3 >= 0) by (nonlinear_arith) requires u3 == (hh * B() + x1) * B() + x0, hh >= 0, x1 >= 0, x0 >= 0;
                    assert(v2 > 0) by (nonlinear_arith) requires v2 == top * B() + y2, top >= B() / 2, y2 >= 0;
                    // rem < dd * B
                    lemma_bp_succ((m - yc) as nat);
                    assert((k + 1 - yc) as nat == ((m - yc) + 1) as nat);
                    assert(yv * bp((k + 1 - yc) as nat) == dd * B()) by (nonlinear_arith)
                        requires dd == yv * bp((m - yc) as nat), bp((k + 1 - yc) as nat) == B() * bp((m - yc) as nat);
                    // 2*dd >= B*B*e  (= B^(xi+1))
                    assert(2 * dd >= B() * B() * e) by (nonlinear_arith)
                        requires dd == yl + y2 * e + top * (B() * e), top >= B() / 2, yl >= 0, y2 >= 0, e >= 1, B() == 0x1_0000_0000_0000_0000;
                    assert(rem >= 0) by (nonlinear_arith) requires rem == u3 * e + wl, u3 >= 0, e >= 1, wl >= 0;
                    assert(x_lo == xb[xi as int]);
                    lemma_knuth_digit(rem, dd, u3, v2, wl, yl, e, q);
                    assert(dd > 0);
                    lemma_fundamental_div_mod(rem, dd);
                    lemma_mod_bound(rem, dd);
                    assert(qt * dd <= rem < (qt + 1) * dd) by (nonlinear_arith)
                        requires rem == dd * qt + rem % dd, 0 <= rem % dd < dd;
                }
            }

            // Subtract q*divisor from the dividend
            carry = Limb::ZERO;
            let mut borrow = Limb::ZERO;
            let mut tmp;
            i = 0;
            while i <= xi
                invariant
                    2 <= LIMBS < 0x100_0000, n == LIMBS, 0 < xi < LIMBS, m == xi + 1, 0 <= i <= xi + 1, q == quo as int,
                    xb.len() == LIMBS, ys.len() == m, forall|j: int| 0 <= j < m ==> ys[j] == y@[n - m + j],
                    borrow.0 == 0 || borrow.0 == u64::MAX,
                    forall|kq: int| 0 <= kq < LIMBS && !(kq < i) ==> x@[kq] == xb[kq],
                    val(x@, i as nat) == val(xb, i as nat) - q * val(ys, i as nat) + carry.0 as int * bp(i as nat) + bb(borrow) * bp(i as nat),
                    q == 0 ==> (carry.0 == 0 && borrow.0 == 0 && x@ == xb),
                decreases xi + 1 - i
            {
                let ghost x_before = x@; let ghost carry_b = carry; let ghost borrow_b = borrow;
                let (t0_, t1_) = Limb::ZERO.mac(y[LIMBS - xi + i - 1], Limb(quo), carry);
                tmp = t0_; carry = t1_;
                let (t2_, t3_) = x[i].sbb(tmp, borrow);
                x[i] = t2_; borrow = t3_;
                proof {
                    let kk = i as nat;
                    assert(x@ =~= x_before.update(kk as int, t2_));
                    lemma_val_ext(x_before, x@, kk);
                    lemma_bp_succ(kk);
                    let pk = bp(kk);
                    let xo = xb[kk as int].0 as int; let xn = t2_.0 as int; let tm = tmp.0 as int;
                    let yi = ys[i as int].0 as int;
                    let c1 = carry.0 as int; let c0 = carry_b.0 as int; let b1 = bb(borrow); let b0 = bb(borrow_b);
                    assert(x_before[kk as int] == xb[kk as int]);
                    assert(y@[LIMBS - xi + i - 1] == ys[i as int]);
                    assert(tm + c1 * B() == yi * q + c0);
                    assert(xn - b1 * B() == xo - tm - b0);
                    assert(xn * pk == xo * pk - (yi * q) * pk + c1 * (B() * pk) - c0 * pk + b1 * (B() * pk) - b0 * pk) by (nonlinear_arith)
                        requires tm + c1 * B() == yi * q + c0, xn - b1 * B() == xo - tm - b0;
                    assert((yi * q) * pk == q * (yi * pk)) by (nonlinear_arith);
                    assert(q * (val(ys, i as nat) + yi * pk) == q * val(ys, i as nat) + q * (yi * pk)) by (nonlinear_arith);
                    if q == 0 {
                        assert(yi * 0 == 0);
                        assert(c1 == 0 && tm == 0) by (nonlinear_arith) requires tm + c1 * B() == 0, tm >= 0, c1 >= 0;
                        assert(b1 == 0 && xn == xo) by (nonlinear_arith) requires xn - b1 * B() == xo, 0 <= xn < B(), 0 <= xo < B(), b1 == 0 || b1 == 1;
                        assert(t2_ == x_before[kk as int]);
                        assert(x@ =~= xb);
                    }
                }
                i += 1;
            }
            let (_t4, t5_) = x_hi.sbb(carry, borrow);
            let ghost bprev = borrow; let ghost cfin = carry;
            borrow = t5_;
            proof {
                if active {
                    let tt = _t4.0 as int;
                    lemma_bp_succ(m);
                    let pt = bp(m);
                    assert(tt * pt - bb(borrow) * (B() * pt) == x_hi.0 as int * pt - cfin.0 as int * pt - bb(bprev) * pt) by (nonlinear_arith)
                        requires tt - bb(borrow) * B() == x_hi.0 as int - cfin.0 as int - bb(bprev);
                    assert(val(x@, m) + tt * pt == rem - q * dd + bb(borrow) * (B() * pt));
                    lemma_tv_bound(x@, 0, m); assert(val(x@, 0) == 0);
                    assert(0 <= tt * pt <= (B() - 1) * pt) by (nonlinear_arith) requires 0 <= tt <= B() - 1, pt > 0;
                    assert((B() - 1) * pt == B() * pt - pt) by (nonlinear_arith);
                    lemma_tv_bound(ys, 0, m); assert(val(ys, 0) == 0);
                    assert(dd <= pt);
                    assert(q * dd == qt * dd + (q - qt) * dd) by (nonlinear_arith);
                    assert((qt + 1) * dd == qt * dd + dd) by (nonlinear_arith);
                    let l = val(x@, m);
                    let tpt = tt * pt; let bpt = B() * pt;
                    let rprime = rem - qt * dd;
                    assert(0 <= rprime < dd);
                    assert(tt >= 1 ==> tpt >= pt) by (nonlinear_arith) requires tpt == tt * pt, pt > 0;
                    assert(tt <= B() - 2 ==> tpt <= bpt - 2 * pt) by (nonlinear_arith) requires tpt == tt * pt, bpt == B() * pt, pt > 0;
                    assert(tpt >= 0) by (nonlinear_arith) requires tpt == tt * pt, tt >= 0, pt > 0;
                    let bbv = bb(borrow);
                    assert(bbv == 0 || bbv == 1);
                    assert(bbv == 0 ==> bbv * bpt == 0) by (nonlinear_arith);
                    assert(bbv == 1 ==> bbv * bpt == bpt) by (nonlinear_arith);
                    if q == qt {
                        assert((q - qt) * dd == 0) by (nonlinear_arith) requires q - qt == 0;
                        assert(l + tpt == rprime + bbv * bpt);
                        assert(bbv == 0);
                        assert(tt == 0);
                        assert(l == rprime);
                    } else {
                        assert(q == qt + 1);
                        assert((q - qt) * dd == dd) by (nonlinear_arith) requires q - qt == 1;
                        assert(l + tpt == rprime - dd + bbv * bpt);
                        assert(bbv == 1);
                        assert(tt == B() - 1);
                        assert(tpt == bpt - pt) by (nonlinear_arith) requires tpt == tt * pt, bpt == B() * pt, tt == B() - 1;
                        assert(l == pt + rprime - dd);
                    }
                    assert(bb(borrow) == 1 <==> q == qt + 1);
                    assert(l == (if bb(borrow) == 1 { pt + rprime - dd } else { rprime }));
                } else {
                    assert(q == 0);
                    assert(borrow.0 == 0);
                }
            }
            let ghost xs = x@;
            let ghost lsub = val(xs, m);

            // If the subtraction borrowed, then decrement q and add back the divisor
            // The probability of this being needed is very low, about 2/(Limb::MAX+1)
            let ct_borrow = ConstChoice::from_word_mask(borrow.0);
            carry = Limb::ZERO;
            i = 0;
            while i <= xi
                invariant
                    2 <= LIMBS < 0x100_0000, n == LIMBS, 0 < xi < LIMBS, m == xi + 1, 0 <= i <= xi + 1, ct_borrow.wf(),
                    xs.len() == LIMBS, x@.len() == LIMBS, ys.len() == m, forall|j: int| 0 <= j < m ==> ys[j] == y@[n - m + j],
                    forall|kq: int| 0 <= kq < LIMBS && !(kq < i) ==> x@[kq] == xs[kq],
                    val(x@, i as nat) + carry.0 as int * bp(i as nat)
                        == val(xs, i as nat) + (if ct_borrow.t() { 1int } else { 0int }) * val(ys, i as nat),
                    !ct_borrow.t() ==> (carry.0 == 0 && x@ == xs),
                decreases xi + 1 - i
            {
                let ghost x_before = x@; let ghost carry_b = carry;
                let (t0_, t1_) = x[i].adc(
                    Limb::select(Limb::ZERO, y[LIMBS - xi + i - 1], ct_borrow),
                    carry,
                );
                x[i] = t0_; carry = t1_;
                proof {
                    let kk = i as nat;
                    assert(x@ =~= x_before.update(kk as int, t0_));
                    lemma_val_ext(x_before, x@, kk);
                    lemma_bp_succ(kk);
                    let pk = bp(kk);
                    let mm = if ct_borrow.t() { 1int } else { 0int };
                    let xo = xs[kk as int].0 as int; let xn = t0_.0 as int; let yi = ys[i as int].0 as int;
                    let c1 = carry.0 as int; let c0 = carry_b.0 as int;
                    assert(x_before[kk as int] == xs[kk as int]);
                    assert(y@[LIMBS - xi + i - 1] == ys[i as int]);
                    let sel = if ct_borrow.t() { yi } else { 0int };
                    assert(mm * yi == sel) by (nonlinear_arith) requires (mm == 1 && sel == yi) || (mm == 0 && sel == 0);
                    assert(xn + c1 * B() == xo + sel + c0);
                    assert(xn * pk + c1 * (B() * pk) == xo * pk + mm * yi * pk + c0 * pk) by (nonlinear_arith)
                        requires xn + c1 * B() == xo + mm * yi + c0;
                    assert(mm * yi * pk == mm * (yi * pk)) by (nonlinear_arith);
                    assert(mm * (val(ys, i as nat) + yi * pk) == mm * val(ys, i as nat) + mm * (yi * pk)) by (nonlinear_arith);
                    if !ct_borrow.t() {
                        assert(c1 == 0 && xn == xo) by (nonlinear_arith) requires xn + c1 * B() == xo, 0 <= xn < B(), 0 <= xo < B(), c1 >= 0;
                        assert(t0_ == x_before[kk as int]);
                        assert(x@ =~= xs);
                    }
                }
                i += 1;
            }
            quo = ct_borrow.select_word(quo, quo.saturating_sub(1));
            proof {
                if active {
                    let pt = bp(m);
                    let c = carry.0 as int;
                    let rprime = rem - qt * dd;
                    let l2 = val(x@, m);
                    let cpt = c * pt;
                    lemma_tv_bound(x@, 0, m); assert(val(x@, 0) == 0);
                    lemma_tv_bound(xs, 0, m); assert(val(xs, 0) == 0);
                    lemma_tv_bound(ys, 0, m); assert(val(ys, 0) == 0);
                    assert((qt + 1) * dd == qt * dd + dd) by (nonlinear_arith);
                    assert(0 <= rprime < dd);
                    assert(c == 0 ==> cpt == 0) by (nonlinear_arith) requires cpt == c * pt;
                    assert(c == 1 ==> cpt == pt) by (nonlinear_arith) requires cpt == c * pt;
                    assert(c >= 2 ==> cpt >= 2 * pt) by (nonlinear_arith) requires cpt == c * pt, pt > 0;
                    if ct_borrow.t() {
                        assert(1 * dd == dd) by (nonlinear_arith);
                        assert(l2 + cpt == pt + rprime);
                        assert(c == 1);
                        assert(l2 == rprime);
                    } else {
                        assert(0 * dd == 0) by (nonlinear_arith);
                        assert(l2 + cpt == rprime);
                        assert(c == 0);
                        assert(l2 == rprime);
                    }
                    assert(quo as int == qt);
                } else {
                    assert(x@ == xb);
                    assert(quo == 0);
                }
            }

            // Store the quotient within dividend and set x_hi to the current highest word
            let ghost xa = x@;
            x_hi = Limb::select(x[xi], x_hi, done);
            x[xi] = Limb::select(Limb(quo), x[xi], done);
            x_lo = Limb::select(x[xi - 1], x_lo, done);
            proof {
                let xn = x@;
                if active {
                    assert(xn =~= xa.update(xi as int, Limb(quo)));
                    lemma_val_ext(xa, xn, xi as nat);
                    lemma_tv_ext(xn, xa, m, n);
                    lemma_tv_ext(xa, xb, m, n);
                    lemma_bp_succ(xi as nat);
                    let rp = rem - qt * dd;
                    assert(val(xa, m) == val(xa, xi as nat) + xa[xi as int].0 as int * bp(xi as nat));
                    assert(x_hi.0 as int * bp(xi as nat) + val(xn, xi as nat) == rp);
                    assert(tv(xn, xi as nat, n) == tv(xn, m, n) + qt * bp(xi as nat));
                    let pa = bp((m - yc) as nat);
                    lemma_bp_add((m - yc) as nat, (yc - 1) as nat);
                    assert(((m - yc) + (yc - 1)) as nat == xi as nat);
                    assert(qt * bp(xi as nat) == (qt * pa) * bp((yc - 1) as nat)) by (nonlinear_arith) requires bp(xi as nat) == pa * bp((yc - 1) as nat);
                    assert((qacc + qt * pa) * bp((yc - 1) as nat) == qacc * bp((yc - 1) as nat) + (qt * pa) * bp((yc - 1) as nat)) by (nonlinear_arith);
                    assert((qacc + qt * pa) * yv == qacc * yv + qt * (yv * pa)) by (nonlinear_arith);
                    assert((qt + 1) * dd == qt * dd + dd) by (nonlinear_arith);
                    qacc = qacc + qt * pa;
                    k = xi as nat;
                    assert((k + 1 - yc) as nat == (m - yc) as nat);
                    assert(maxn(xi as nat, (yc - 1) as nat) == k);
                } else {
                    assert(xn =~= xb);
                    assert(maxn(xi as nat, (yc - 1) as nat) == k);
                }
            }
            xi -= 1;
        }

        // after the loop: xi == 0, k == max(1, yc-1)
        let ghost xq = x@;
        let ghost hq = x_hi;
        let ghost remq = hq.0 as int * bp(k) + val(xq, k);

        let limb_div = ConstChoice::from_u32_eq(1, dwords);

        // Calculate quotient and remainder for the case where the divisor is a single word
        // Note that `div2by1()` will panic if `x_hi >= reciprocal.divisor_normalized`,
        // but this can only be the case if `limb_div` is falsy,
        // in which case we discard the result anyway,
        // so we conditionally set `x_hi` to zero for this branch.
        let x_hi_adjusted = Limb::select(Limb::ZERO, x_hi, limb_div);
        proof {
            lemma_bp_succ(0); lemma_bp_succ(1);
            lemma_tv_bound(xq, 0, k); assert(val(xq, 0) == 0);
            if yc == 1 {
                // val(y,n) = yv * B^(n-1)  => y_top == yv
                lemma_val_small_low(y@, (n - 1) as nat, n, yv);
                lemma_val_zero_tail(y@, 0, (n - 1) as nat);
                assert(val(y@, n) == val(y@, (n - 1) as nat) + y@[n - 1].0 as int * bp((n - 1) as nat));
                lemma_bp_succ((n - 1) as nat);
                assert(y@[n - 1].0 as int == yv) by (nonlinear_arith)
                    requires y@[n - 1].0 as int * bp((n - 1) as nat) == yv * bp((n - 1) as nat), bp((n - 1) as nat) > 0;
                assert(k == 1);
                assert((k + 1 - yc) as nat == 1);
                assert(hq.0 as int * B() < yv * B());
                assert((hq.0 as int) < yv) by (nonlinear_arith) requires hq.0 as int * B() < yv * B();
            }
        }
        let (quo2, rem2) = div2by1(x_hi_adjusted.0, x_lo.0, &reciprocal);

        // Adjust the quotient for single limb division
        x[0] = Limb::select(x[0], Limb(quo2), limb_div);

        // Copy out the remainder
        y[0] = Limb::select(x[0], Limb(rem2), limb_div);
        i = 1;
        while i < LIMBS
            invariant 2 <= LIMBS < 0x100_0000, n == LIMBS, 1 <= yc <= n, yc == dwords, 1 <= i <= LIMBS,
                x@.len() == LIMBS,
                forall|j: int| 1 <= j < i ==> y@[j] == (if j == yc - 1 { x_hi } else if j < yc { x@[j] } else { Limb(0) }),
                y@[0] == (if yc == 1 { Limb(rem2) } else { x@[0] }),
            decreases LIMBS - i
        {
            y[i] = Limb::select(Limb::ZERO, x[i], ConstChoice::from_u32_lt(i as u32, dwords));
            y[i] = Limb::select(y[i], x_hi, ConstChoice::from_u32_eq(i as u32, dwords - 1));
            i += 1;
        }
        let ghost xf = x@;
        let ghost yf = y@;
        proof {
            // remainder value and quotient value
            let sq = ((dwords - 1) * 64) as nat;
            lemma_pow2_64k((yc - 1) as nat);
            assert(sq == 64 * (yc - 1) as nat);
            lemma_bp_succ((yc - 1) as nat);
            if yc == 1 {
                let q2 = quo2 as int; let r2 = rem2 as int;
                assert(xf =~= xq.update(0, Limb(quo2)));
                lemma_tv_ext(xf, xq, 1, n);
                assert(val(xf, 1) == q2) by { assert(val(xf, 0) == 0); assert(q2 * 1 == q2) by (nonlinear_arith); }
                assert(val(xq, 1) == xq[0].0 as int) by { assert(val(xq, 0) == 0); let a = xq[0].0 as int; assert(a * 1 == a) by (nonlinear_arith); }
                assert(qacc * bp(0) == qacc) by (nonlinear_arith) requires bp(0) == 1;
                assert(val(xf, n) == q2 + qacc);
                // y = [rem2, 0, ...]
                lemma_val_zero_tail(yf, 1, n);
                assert(val(yf, 1) == r2) by { assert(val(yf, 0) == 0); assert(r2 * 1 == r2) by (nonlinear_arith); }
                assert(xv == (qacc + q2) * yv + r2) by (nonlinear_arith)
                    requires xv == qacc * yv + hq.0 as int * B() + xq[0].0 as int, q2 * yv + r2 == hq.0 as int * B() + xq[0].0 as int;
                lemma_div_basics(val(xf, n));
            } else {
                assert(k == yc - 1);
                assert(xf =~= xq);
                assert(yv * bp(0) == yv) by (nonlinear_arith) requires bp(0) == 1;
                assert((k + 1 - yc) as nat == 0);
                // y = x[0..yc-1) ++ [x_hi] ++ zeros
                lemma_val_zero_tail(yf, yc, n);
                lemma_val_ext(yf, xq, (yc - 1) as nat);
                assert(val(yf, yc) == val(yf, (yc - 1) as nat) + yf[yc - 1].0 as int * bp((yc - 1) as nat));
                assert(val(yf, n) == remq);
                // quotient: val(x,n) = val(x,yc-1) + qacc*B^(yc-1)
                let low = val(xq, (yc - 1) as nat);
                let pb = bp((yc - 1) as nat);
                assert(val(xq, n) == low + qacc * pb);
                lemma_tv_bound(xq, 0, (yc - 1) as nat);
                assert(qacc * pb == pb * qacc) by (nonlinear_arith);
                lemma_fundamental_div_mod_converse(val(xq, n), pb, qacc, low);
            }
        }
        let ghost qfin: int = if yc == 1 { qacc + quo2 as int } else { qacc };
        let ghost rfin: int = if yc == 1 { rem2 as int } else { remq };
        proof {
            assert(xv == qfin * yv + rfin);
            assert(0 <= rfin < yv) by {
                if yc != 1 {
                    assert(remq >= 0) by (nonlinear_arith) requires remq == hq.0 as int * bp(k) + val(xq, k), val(xq, k) >= 0, bp(k) > 0, hq.0 as int >= 0;
                }
            }
            let rr = sv - qfin * rv;
            assert(rfin == rr * s2) by (nonlinear_arith) requires sv * s2 == qfin * (rv * s2) + rfin, rr == sv - qfin * rv;
            assert(0 <= rr < rv) by (nonlinear_arith) requires rfin == rr * s2, 0 <= rfin, rfin < rv * s2, s2 > 0;
            assert(rr * s2 == s2 * rr) by (nonlinear_arith);
            lemma_div_by_multiple(rr, s2);
        }

        (
            Uint::new(x).shr((dwords - 1) * Limb::BITS),
            Uint::new(y).shr(lshift),
        )
    }
}

} // verus!
fn main() {}
