use vstd::prelude::*;
use vstd::arithmetic::power::*;
use vstd::arithmetic::div_mod::*;
verus! {

pub type Word = u64;
pub type WideWord = u128;
#[derive(Copy, Clone)]
pub struct Limb(pub Word);
pub open spec fn B() -> int { 0x1_0000_0000_0000_0000 }
pub open spec fn bp(n: nat) -> int { pow(B(), n) }
pub open spec fn val(s: Seq<Limb>, n: nat) -> int
    decreases n
{ if n == 0 { 0 } else { val(s, (n - 1) as nat) + s[n - 1].0 as int * bp((n - 1) as nat) } }
pub open spec fn bb(l: Limb) -> int { if l.0 == u64::MAX { 1 } else { 0 } }
pub proof fn lemma_bp_succ(n: nat)
    ensures bp(n + 1) == B() * bp(n), bp(n) > 0, bp(0) == 1
{ reveal(pow); lemma_pow_positive(B(), n); lemma_pow0(B()); }
pub proof fn lemma_val_ext(s: Seq<Limb>, t: Seq<Limb>, n: nat)
    requires forall|k: int| 0 <= k < n ==> s[k] == t[k],
    ensures val(s, n) == val(t, n),
    decreases n
{ if n > 0 { lemma_val_ext(s, t, (n - 1) as nat); } }

#[derive(Copy, Clone)]
pub struct ConstChoice(pub Word);
impl ConstChoice {
    pub open spec fn wf(&self) -> bool { self.0 == 0 || self.0 == u64::MAX }
    pub open spec fn t(&self) -> bool { self.0 == u64::MAX }
    #[verifier::external_body]
    pub const fn if_true_word(&self, x: Word) -> (r: Word) requires self.wf() ensures r == if self.t() { x } else { 0 } { unimplemented!() }
}
impl Limb {
    pub const ZERO: Self = Limb(0);
    #[verifier::external_body]
    pub const fn sbb(self, rhs: Limb, borrow: Limb) -> (r: (Limb, Limb))
        requires borrow.0 == 0 || borrow.0 == u64::MAX
        ensures r.1.0 == 0 || r.1.0 == u64::MAX, r.0.0 as int - bb(r.1) * B() == self.0 as int - rhs.0 as int - bb(borrow)
    { unimplemented!() }
    #[verifier::external_body]
    pub const fn mac(self, b: Limb, c: Limb, carry: Limb) -> (r: (Limb, Limb))
        ensures r.0.0 as int + r.1.0 as int * B() == self.0 as int + b.0 as int * c.0 as int + carry.0 as int
    { unimplemented!() }
    #[verifier::external_body]
    pub const fn wrapping_neg(self) -> (r: Self) ensures r.0 as int == (if self.0 == 0 { 0 } else { B() - self.0 as int }) { unimplemented!() }
    #[verifier::external_body]
    pub const fn not(self) -> (r: Self) ensures r.0 as int == B() - 1 - self.0 as int { unimplemented!() }
    #[verifier::external_body]
    pub const fn bitand(self, rhs: Self) -> (r: Self)
        ensures rhs.0 == 0 ==> r.0 == 0, rhs.0 == u64::MAX ==> r.0 == self.0, self.0 == 0 ==> r.0 == 0, self.0 == u64::MAX ==> r.0 == rhs.0
    { unimplemented!() }
    #[verifier::external_body]
    pub const fn select(a: Self, b: Self, c: ConstChoice) -> (r: Self) requires c.wf() ensures r == if c.t() { b } else { a } { unimplemented!() }
    #[verifier::external_body]
    pub const fn is_nonzero(&self) -> (r: ConstChoice) ensures r.wf(), r.t() == (self.0 != 0) { unimplemented!() }
}

#[derive(Copy, Clone)]
pub struct Uint<const LIMBS: usize> { pub limbs: [Limb; LIMBS] }
pub struct Odd<T>(pub T);

impl<const LIMBS: usize> Uint<LIMBS> {
    pub open spec fn v(&self) -> int { val(self.limbs@, LIMBS as nat) }
    pub open spec fn w() -> int { bp(LIMBS as nat) }
    pub proof fn lemma_range(&self) ensures 0 <= self.v() < Self::w(), Self::w() > 0 
    { lemma_val_range(self.limbs@, LIMBS as nat); }

    #[verifier::external_body] pub const fn BITS() -> (r: u32) ensures r == 64 * LIMBS { unimplemented!() }
    #[verifier::external_body] pub const fn ZERO() -> (r: Self) ensures r.v() == 0 { unimplemented!() }
    #[verifier::external_body]
    pub const fn adc(&self, rhs: &Self, carry: Limb) -> (r: (Self, Limb))
        ensures r.0.v() + r.1.0 as int * Self::w() == self.v() + rhs.v() + carry.0 as int { unimplemented!() }
    #[verifier::external_body]
    pub const fn sbb(&self, rhs: &Self, borrow: Limb) -> (r: (Self, Limb))
        requires borrow.0 == 0 || borrow.0 == u64::MAX
        ensures r.1.0 == 0 || r.1.0 == u64::MAX, r.0.v() - bb(r.1) * Self::w() == self.v() - rhs.v() - bb(borrow) { unimplemented!() }
    #[verifier::external_body]
    pub const fn wrapping_add(&self, rhs: &Self) -> (r: Self) ensures r.v() == (self.v() + rhs.v()) % Self::w() { unimplemented!() }
    #[verifier::external_body]
    pub const fn wrapping_sub(&self, rhs: &Self) -> (r: Self) ensures r.v() == (self.v() - rhs.v()) % Self::w() { unimplemented!() }
    #[verifier::external_body]
    pub const fn bitand_limb(&self, rhs: Limb) -> (r: Self) ensures rhs.0 == 0 ==> r.v() == 0, rhs.0 == u64::MAX ==> r.v() == self.v() { unimplemented!() }
    #[verifier::external_body]
    pub const fn overflowing_shl1(&self) -> (r: (Self, Limb)) ensures r.0.v() + r.1.0 as int * Self::w() == 2 * self.v(), r.1.0 <= 1 { unimplemented!() }
    #[verifier::external_body]
    pub const fn from_word(w: Word) -> (r: Self) requires LIMBS >= 1 ensures r.v() == w as int { unimplemented!() }
    #[verifier::external_body]
    pub const fn is_nonzero(&self) -> (r: ConstChoice) ensures r.wf(), r.t() == (self.v() != 0) { unimplemented!() }
    #[verifier::external_body]
    pub const fn is_odd(&self) -> (r: ConstChoice) ensures r.wf(), r.t() == (self.v() % 2 == 1) { unimplemented!() }
    #[verifier::external_body]
    pub const fn select(a: &Self, b: &Self, c: ConstChoice) -> (r: Self) requires c.wf() ensures r == if c.t() { *b } else { *a } { unimplemented!() }
    #[verifier::external_body]
    pub const fn shr1(&self) -> (r: Self) ensures r.v() == self.v() / 2 { unimplemented!() }
    #[verifier::external_body]
    pub const fn set_bit(self, index: u32, bit_value: ConstChoice) -> (r: Self)
        requires index == 64 * LIMBS - 1, bit_value.wf(), self.v() < Self::w() / 2
        ensures r.v() == self.v() + (if bit_value.t() { Self::w() / 2 } else { 0 }) { unimplemented!() }
}
pub proof fn lemma_val_range(s: Seq<Limb>, n: nat)
    ensures 0 <= val(s, n) < bp(n), bp(n) > 0
    decreases n
{
    lemma_bp_succ(0);
    if n > 0 {
        lemma_val_range(s, (n - 1) as nat); lemma_bp_succ((n - 1) as nat);
        let a = s[n - 1].0 as int; let p = bp((n - 1) as nat);
        assert(0 <= a * p <= (B() - 1) * p) by (nonlinear_arith) requires 0 <= a <= B() - 1, p > 0;
        assert((B() - 1) * p + p == B() * p) by (nonlinear_arith);
    }
}

impl<const LIMBS: usize> Uint<LIMBS> {
    /// Computes `self + rhs mod p`.
    pub const fn add_mod(&self, rhs: &Self, p: &Self) -> (ret__: Self)
        requires self.v() + rhs.v() < 2 * p.v()
        ensures ret__.v() == (self.v() + rhs.v()) % p.v(), ret__.v() < p.v()
    {
        let (w, carry) = self.adc(rhs, Limb::ZERO);
        proof { w.lemma_range(); }

        // Attempt to subtract the modulus, to ensure the result is in the field.
        let (w, borrow) = w.sbb(p, Limb::ZERO);
        let (_, mask) = carry.sbb(Limb::ZERO, borrow);
        proof {
            self.lemma_range(); rhs.lemma_range(); p.lemma_range(); w.lemma_range();
            let ww = Self::w(); let s = self.v() + rhs.v();
            let c = carry.0 as int;
            assert(c == 0 || c == 1) by (nonlinear_arith) requires c * ww <= s, s < 2 * ww, c >= 0, ww > 0;
            assert(c * ww == (if c == 1 { ww } else { 0 })) by (nonlinear_arith) requires c == 0 || c == 1;
            assert(bb(borrow) * ww == (if bb(borrow) == 1 { ww } else { 0 })) by (nonlinear_arith) requires bb(borrow) == 0 || bb(borrow) == 1;
            // mask == MAX  <=>  s < p
            assert((mask.0 == u64::MAX) == (s < p.v()));
            if s < p.v() { lemma_small_mod(s as nat, p.v() as nat); lemma_mod_add_multiples_vanish(s, ww); lemma_small_mod(s as nat, ww as nat); }
            else { lemma_fundamental_div_mod_converse(s, p.v(), 1, s - p.v()); lemma_small_mod(w.v() as nat, ww as nat); }
        }

        // If underflow occurred on the final limb, borrow = 0xfff...fff, otherwise
        // borrow = 0x000...000. Thus, we use it as a mask to conditionally add the
        // modulus.
        w.wrapping_add(&p.bitand_limb(mask))
    }

    /// Computes `self - rhs mod p`.
    pub const fn sub_mod(&self, rhs: &Self, p: &Self) -> (ret__: Self)
        requires -p.v() <= self.v() - rhs.v() < p.v(), p.v() > 0
        ensures ret__.v() == (self.v() - rhs.v()) % p.v(), ret__.v() < p.v()
    {
        let (out, mask) = self.sbb(rhs, Limb::ZERO);
        proof {
            self.lemma_range(); rhs.lemma_range(); p.lemma_range(); out.lemma_range();
            let ww = Self::w(); let d = self.v() - rhs.v();
            assert(bb(mask) * ww == (if bb(mask) == 1 { ww } else { 0 })) by (nonlinear_arith) requires bb(mask) == 0 || bb(mask) == 1;
            if d < 0 {
                assert(out.v() == d + ww);
                lemma_mod_add_multiples_vanish(d + p.v(), ww); lemma_small_mod((d + p.v()) as nat, ww as nat);
                lemma_mod_add_multiples_vanish(d, p.v()); lemma_small_mod((d + p.v()) as nat, p.v() as nat);
            } else {
                lemma_small_mod(d as nat, ww as nat); lemma_small_mod(d as nat, p.v() as nat);
            }
        }

        // If underflow occurred on the final limb, borrow = 0xfff...fff, otherwise
        // borrow = 0x000...000. Thus, we use it as a mask to conditionally add the modulus.
        out.wrapping_add(&p.bitand_limb(mask))
    }

    /// Computes `self + self mod p`.
    pub const fn double_mod(&self, p: &Self) -> (ret__: Self)
        requires self.v() < p.v()
        ensures ret__.v() == (2 * self.v()) % p.v(), ret__.v() < p.v()
    {
        let (w, carry) = self.overflowing_shl1();

        // Attempt to subtract the modulus, to ensure the result is in the field.
        let (w, borrow) = w.sbb(p, Limb::ZERO);
        let (_, mask) = carry.sbb(Limb::ZERO, borrow);
        proof {
            self.lemma_range(); p.lemma_range(); w.lemma_range();
            let ww = Self::w(); let s = 2 * self.v();
            let c = carry.0 as int;
            assert(c * ww == (if c == 1 { ww } else { 0 })) by (nonlinear_arith) requires c == 0 || c == 1;
            assert(bb(borrow) * ww == (if bb(borrow) == 1 { ww } else { 0 })) by (nonlinear_arith) requires bb(borrow) == 0 || bb(borrow) == 1;
            assert((mask.0 == u64::MAX) == (s < p.v()));
            if s < p.v() { lemma_small_mod(s as nat, p.v() as nat); lemma_mod_add_multiples_vanish(s, ww); lemma_small_mod(s as nat, ww as nat); }
            else { lemma_fundamental_div_mod_converse(s, p.v(), 1, s - p.v()); lemma_small_mod(w.v() as nat, ww as nat); }
        }
        w.wrapping_add(&p.bitand_limb(mask))
    }

    /// Returns `(self..., carry) - (rhs...) mod (p...)`, where `carry <= 1`.
    pub const fn sub_mod_with_carry(&self, carry: Limb, rhs: &Self, p: &Self) -> (ret__: Self)
        requires carry.0 <= 1, -p.v() <= self.v() + carry.0 as int * Self::w() - rhs.v() < p.v(), p.v() > 0
        ensures ret__.v() == (self.v() + carry.0 as int * Self::w() - rhs.v()) % p.v(), ret__.v() < p.v()
    {
        debug_assert!(carry.0 <= 1);

        let (out, borrow) = self.sbb(rhs, Limb::ZERO);

        // The new `borrow = Word::MAX` iff `carry == 0` and `borrow == Word::MAX`.
        let mask = carry.wrapping_neg().not().bitand(borrow);
        proof {
            self.lemma_range(); rhs.lemma_range(); p.lemma_range(); out.lemma_range();
            let ww = Self::w(); let c = carry.0 as int; let d = self.v() + c * ww - rhs.v();
            assert(c * ww == (if c == 1 { ww } else { 0 })) by (nonlinear_arith) requires c == 0 || c == 1;
            assert(bb(borrow) * ww == (if bb(borrow) == 1 { ww } else { 0 })) by (nonlinear_arith) requires bb(borrow) == 0 || bb(borrow) == 1;
            assert((mask.0 == u64::MAX) == (c == 0 && borrow.0 == u64::MAX));
            assert(mask.0 == 0 || mask.0 == u64::MAX);
            assert((mask.0 == u64::MAX) == (d < 0));
            if d < 0 {
                lemma_mod_add_multiples_vanish(d + p.v(), ww); lemma_small_mod((d + p.v()) as nat, ww as nat);
                lemma_mod_add_multiples_vanish(d, p.v()); lemma_small_mod((d + p.v()) as nat, p.v() as nat);
            } else {
                lemma_small_mod(d as nat, p.v() as nat);
                lemma_small_mod(out.v() as nat, ww as nat);
            }
        }

        // If underflow occurred on the final limb, borrow = 0xfff...fff, otherwise
        // borrow = 0x000...000. Thus, we use it as a mask to conditionally add the modulus.
        out.wrapping_add(&p.bitand_limb(mask))
    }

    /// Computes `-a mod p`.
    pub const fn neg_mod(&self, p: &Self) -> (ret__: Self)
        requires self.v() < p.v()
        ensures ret__.v() == (p.v() - self.v()) % p.v(), ret__.v() < p.v()
    {
        let z = self.is_nonzero();
        let mut ret = p.sbb(self, Limb::ZERO).0;
        let ghost r0 = ret;
        let mut i = 0;
        while i < LIMBS
            invariant 0 <= i <= LIMBS, z.wf(),
                forall|k: int| 0 <= k < i ==> ret.limbs@[k].0 == (if z.t() { r0.limbs@[k].0 } else { 0 }),
                forall|k: int| i <= k < LIMBS ==> ret.limbs@[k] == r0.limbs@[k],
            decreases LIMBS - i
        {
            // Set ret to 0 if the original value was 0, in which
            // case ret would be p.
            ret.limbs[i].0 = z.if_true_word(ret.limbs[i].0);
            i += 1;
        }
        proof {
            self.lemma_range(); p.lemma_range(); r0.lemma_range();
            let ww = Self::w();
            assert(0 * ww == 0);
            if z.t() {
                lemma_val_ext(ret.limbs@, r0.limbs@, LIMBS as nat);
                lemma_small_mod((p.v() - self.v()) as nat, p.v() as nat);
            } else {
                lemma_val_zero(ret.limbs@, LIMBS as nat);
                lemma_mod_self_0(p.v());
            }
        }
        ret
    }
}
pub proof fn lemma_wsub(x: u64, y: u64, w: u64)
    requires w as int == (if x as int - y as int >= 0 { x as int - y as int } else { x as int - y as int + 0x1_0000_0000_0000_0000 })
    ensures w == sub(x, y)
{
    let s = sub(x, y);
    assert(x >= y ==> s == (x - y) as u64) by (bit_vector) requires s == sub(x, y);
    assert(x < y ==> s == (0xffff_ffff_ffff_ffffu64 - (y - x) as u64 + 1) as u64) by (bit_vector) requires s == sub(x, y);
}
pub proof fn lemma_val_zero(s: Seq<Limb>, n: nat)
    requires forall|k: int| 0 <= k < n ==> s[k].0 == 0,
    ensures val(s, n) == 0,
    decreases n
{ if n > 0 { lemma_val_zero(s, (n - 1) as nat); assert(0 * bp((n - 1) as nat) == 0); } }

pub const fn div_by_2<const LIMBS: usize>(
    a: &Uint<LIMBS>,
    modulus: &Odd<Uint<LIMBS>>,
) -> (ret__: Uint<LIMBS>)
    requires modulus.0.v() % 2 == 1, a.v() < modulus.0.v(), LIMBS >= 1
    ensures ret__.v() < modulus.0.v(), (2 * ret__.v()) % modulus.0.v() == a.v()
{
    let is_odd = a.is_odd();
    let (if_odd, carry) = a.adc(&modulus.0, Limb::ZERO);
    let carry = Limb::select(Limb::ZERO, carry, is_odd);
    proof {
        a.lemma_range(); modulus.0.lemma_range(); if_odd.lemma_range();
        let ww = Uint::<LIMBS>::w(); let m = modulus.0.v(); let av = a.v();
        lemma_bp_succ((LIMBS - 1) as nat);
        assert(ww % 2 == 0) by { assert(ww == B() * bp((LIMBS - 1) as nat)); assert(B() * bp((LIMBS - 1) as nat) == 2 * (0x8000_0000_0000_0000 * bp((LIMBS - 1) as nat))) by (nonlinear_arith) requires B() == 0x1_0000_0000_0000_0000; }
    }
    proof {
        let ww = Uint::<LIMBS>::w(); let m = modulus.0.v(); let av = a.v(); let c = carry.0 as int;
        // original carry (before select) is 0 or 1
        if is_odd.t() {
            assert(c == 0 || c == 1) by (nonlinear_arith) requires if_odd.v() + c * ww == av + m, av + m < 2 * ww, if_odd.v() >= 0, c >= 0, ww > 0;
            assert(c * ww == (if c == 1 { ww } else { 0 })) by (nonlinear_arith) requires c == 0 || c == 1;
            assert((av + m) % 2 == 0);
            lemma_fundamental_div_mod_converse(av + m, m, 1, av);
        } else {
            lemma_small_mod(av as nat, m as nat);
        }
    }
    Uint::<LIMBS>::select(a, &if_odd, is_odd)
        .shr1()
        .set_bit(Uint::<LIMBS>::BITS() - 1, carry.is_nonzero())
}

impl<const LIMBS: usize> Uint<LIMBS> {
    #[verifier::external_body]
    pub const fn split_mul(&self, rhs: &Self) -> (r: (Self, Self)) ensures r.0.v() + r.1.v() * Self::w() == self.v() * rhs.v() { unimplemented!() }
    #[verifier::external_body]
    pub const fn from_wide_word(w: WideWord) -> (r: Self) requires LIMBS >= 2 ensures r.v() == w as int { unimplemented!() }

    /// Computes `self + rhs mod p` for the special modulus `p = MAX+1-c`
    pub const fn add_mod_special(&self, rhs: &Self, c: Limb) -> (ret__: Self)
        requires LIMBS >= 1, c.0 >= 1, self.v() + rhs.v() < 2 * (Self::w() - c.0 as int)
        ensures ret__.v() == (self.v() + rhs.v()) % (Self::w() - c.0 as int)
    {
        // `Uint::adc` also works with a carry greater than 1.
        let (out, carry) = self.adc(rhs, c);

        // If overflow occurred, then above addition of `c` already accounts
        // for the overflow. Otherwise, we need to subtract `c` again, which
        // in that case cannot underflow.
        let l = carry.0.wrapping_sub(1) & c.0;
        proof {
            self.lemma_range(); rhs.lemma_range(); out.lemma_range();
            let ww = Self::w(); let cv = c.0 as int; let p = ww - cv; let s = self.v() + rhs.v(); let cy = carry.0 as int;
            lemma_bp_succ((LIMBS - 1) as nat);
            assert(ww >= B()) by (nonlinear_arith) requires ww == B() * bp((LIMBS - 1) as nat), bp((LIMBS - 1) as nat) >= 1;
            assert(cy == 0 || cy == 1) by (nonlinear_arith) requires out.v() + cy * ww == s + cv, s + cv < 2 * ww, out.v() >= 0, cy >= 0, ww > 0;
            assert(cy * ww == (if cy == 1 { ww } else { 0 })) by (nonlinear_arith) requires cy == 0 || cy == 1;
            let cw = carry.0; let c0 = c.0;
            let ws = cw.wrapping_sub(1);
            lemma_wsub(cw, 1, ws);
            assert(l == (if cw == 1 { 0 } else { c0 })) by (bit_vector) requires l == (sub(cw, 1) & c0), cw == 0 || cw == 1;
            if cy == 1 {
                // s + c >= W  => s >= p ; out = s + c - W = s - p
                lemma_fundamental_div_mod_converse(s, p, 1, s - p);
                lemma_small_mod(out.v() as nat, ww as nat);
            } else {
                // s + c < W => s < p ; out - c = s
                lemma_small_mod(s as nat, p as nat);
                lemma_small_mod(s as nat, ww as nat);
            }
        }
        out.wrapping_sub(&Self::from_word(l))
    }

    /// Computes `self - rhs mod p` for the special modulus `p = MAX+1-c`
    pub const fn sub_mod_special(&self, rhs: &Self, c: Limb) -> (ret__: Self)
        requires LIMBS >= 1, c.0 >= 1, -(Self::w() - c.0 as int) <= self.v() - rhs.v() < Self::w() - c.0 as int
        ensures ret__.v() == (self.v() - rhs.v()) % (Self::w() - c.0 as int)
    {
        let (out, borrow) = self.sbb(rhs, Limb::ZERO);

        // If underflow occurred, then we need to subtract `c` to account for
        // the underflow. This cannot underflow due to the assumption
        // `self - rhs >= -p`.
        let l = borrow.0 & c.0;
        proof {
            self.lemma_range(); rhs.lemma_range(); out.lemma_range();
            let ww = Self::w(); let cv = c.0 as int; let p = ww - cv; let d = self.v() - rhs.v();
            lemma_bp_succ((LIMBS - 1) as nat);
            assert(ww >= B()) by (nonlinear_arith) requires ww == B() * bp((LIMBS - 1) as nat), bp((LIMBS - 1) as nat) >= 1;
            assert(bb(borrow) * ww == (if bb(borrow) == 1 { ww } else { 0 })) by (nonlinear_arith) requires bb(borrow) == 0 || bb(borrow) == 1;
            let bw = borrow.0; let c0 = c.0;
            assert(l == (if bw == 0xffff_ffff_ffff_ffffu64 { c0 } else { 0 })) by (bit_vector) requires l == (bw & c0), bw == 0 || bw == 0xffff_ffff_ffff_ffffu64;
            if d < 0 {
                // out = d + W ; out - c = d + p
                lemma_small_mod((d + p) as nat, ww as nat);
                lemma_mod_add_multiples_vanish(d, p); lemma_small_mod((d + p) as nat, p as nat);
            } else {
                lemma_small_mod(d as nat, ww as nat); lemma_small_mod(d as nat, p as nat);
            }
        }
        out.wrapping_sub(&Self::from_word(l))
    }
}

/// Computes `a + (b * c) + carry`, returning the result along with the new carry.
pub const fn mac_by_limb<const LIMBS: usize>(
    a: &Uint<LIMBS>,
    b: &Uint<LIMBS>,
    c: Limb,
    carry: Limb,
) -> (ret__: (Uint<LIMBS>, Limb))
    ensures ret__.0.v() + ret__.1.0 as int * Uint::<LIMBS>::w() == a.v() + b.v() * c.0 as int + carry.0 as int
{
    let ghost a0 = *a; let ghost carry0 = carry;
    let mut i = 0;
    let mut a = *a;
    let mut carry = carry;
    proof { lemma_bp_succ(0); assert(0 * c.0 as int == 0); }

    while i < LIMBS
        invariant 0 <= i <= LIMBS,
            forall|k: int| i <= k < LIMBS ==> a.limbs@[k] == a0.limbs@[k],
            val(a.limbs@, i as nat) + carry.0 as int * bp(i as nat) == val(a0.limbs@, i as nat) + val(b.limbs@, i as nat) * c.0 as int + carry0.0 as int,
        decreases LIMBS - i
    {
        let ghost ab = a.limbs@; let ghost cb = carry;
        let (t0_, t1_) = a.limbs[i].mac(b.limbs[i], c, carry);
        a.limbs[i] = t0_; carry = t1_;
        proof {
            lemma_val_ext(ab, a.limbs@, i as nat);
            lemma_bp_succ(i as nat);
            let pk = bp(i as nat); let x = t0_.0 as int; let c1 = carry.0 as int; let c0 = cb.0 as int;
            let ai = a0.limbs@[i as int].0 as int; let bi = b.limbs@[i as int].0 as int; let cv = c.0 as int;
            assert(x + c1 * B() == ai + bi * cv + c0);
            assert(x * pk + c1 * (B() * pk) == ai * pk + (bi * pk) * cv + c0 * pk) by (nonlinear_arith) requires x + c1 * B() == ai + bi * cv + c0;
            assert((val(b.limbs@, i as nat) + bi * pk) * cv == val(b.limbs@, i as nat) * cv + (bi * pk) * cv) by (nonlinear_arith);
        }
        i += 1;
    }

    (a, carry)
}

impl<const LIMBS: usize> Uint<LIMBS> {
    /// mul_mod_special with the `(carry + 1)` widened BEFORE the addition (proposed fix)
    pub const fn mul_mod_special_fixed(&self, rhs: &Self, c: Limb) -> (ret__: Self)
        requires LIMBS >= 2, c.0 >= 1
        ensures ret__.v() == (self.v() * rhs.v()) % (Self::w() - c.0 as int)
    {
        let ghost rhs0 = *rhs;
        let (lo, hi) = self.split_mul(rhs);
        let ghost lo0 = lo;

        // Now use Algorithm 14.47 for the reduction
        let (lo, carry) = mac_by_limb(&lo, &hi, c, Limb::ZERO);
        let ghost lo1 = lo; let ghost carry1 = carry;
        proof {
            lo0.lemma_range(); hi.lemma_range(); lo1.lemma_range(); self.lemma_range(); rhs0.lemma_range();
            let cv = c.0 as int; let c1 = carry1.0 as int;
            assert((c1 + 1) * cv <= 0xffff_ffff_ffff_ffff * 0x1_0000_0000_0000_0000) by (nonlinear_arith) requires 0 <= c1 <= 0xffff_ffff_ffff_ffff, 0 <= cv <= 0xffff_ffff_ffff_ffff;
        }

        let (lo, carry) = {
            let rhs = (carry.0 as WideWord + 1) * c.0 as WideWord;
            lo.adc(&Self::from_wide_word(rhs), Limb::ZERO)
        };
        let ghost lo2 = lo; let ghost carry2 = carry;

        let (lo, _) = {
            let rhs = carry.0.wrapping_sub(1) & c.0;
            proof {
                lo2.lemma_range();
                let ww = Self::w(); let cv = c.0 as int; let p = ww - cv; let c1 = carry1.0 as int; let c2 = carry2.0 as int;
                let n = self.v() * rhs0.v(); let hv = hi.v();
                lemma_bp_succ((LIMBS - 1) as nat); lemma_bp_succ((LIMBS - 2) as nat);
                assert(ww >= B() * B()) by (nonlinear_arith) requires ww == B() * bp((LIMBS - 1) as nat), bp((LIMBS - 1) as nat) == B() * bp((LIMBS - 2) as nat), bp((LIMBS - 2) as nat) >= 1, B() > 0;
                // S1 = lo0 + hi*c = lo1 + c1*W ; n - S1 = hi*p
                let t = lo1.v() + c1 * cv;
                assert(n - t == (hv + c1) * p) by (nonlinear_arith)
                    requires n == lo0.v() + hv * ww, lo1.v() + c1 * ww == lo0.v() + hv * cv, t == lo1.v() + c1 * cv, p == ww - cv;
                assert(n >= 0) by (nonlinear_arith) requires n == self.v() * rhs0.v(), self.v() >= 0, rhs0.v() >= 0;
                // S2
                let s2 = lo1.v() + (c1 + 1) * cv;
                assert((c1 + 1) * cv == c1 * cv + cv) by (nonlinear_arith);
                assert(c1 * cv <= (B() - 1) * (B() - 1)) by (nonlinear_arith) requires 0 <= c1 <= B() - 1, 0 <= cv <= B() - 1;
                assert((B() - 1) * (B() - 1) == B() * B() - 2 * B() + 1) by (nonlinear_arith);
                assert(c2 == 0 || c2 == 1) by (nonlinear_arith) requires lo2.v() + c2 * ww == s2, s2 < 2 * ww, lo2.v() >= 0, c2 >= 0, ww > 0;
                assert(c2 * ww == (if c2 == 1 { ww } else { 0 })) by (nonlinear_arith) requires c2 == 0 || c2 == 1;
                assert(t >= 0) by (nonlinear_arith) requires t == lo1.v() + c1 * cv, lo1.v() >= 0, c1 >= 0, cv >= 0;
                let cw = carry2.0; let c0 = c.0; let ws = cw.wrapping_sub(1);
                lemma_wsub(cw, 1, ws);
                assert(rhs == (if cw == 1 { 0 } else { c0 })) by (bit_vector) requires rhs == (sub(cw, 1) & c0), cw == 0 || cw == 1;
                let res = if c2 == 1 { t - p } else { t };
                assert(0 <= res < p);
                // res == n % p
                let qq = if c2 == 1 { hv + c1 + 1 } else { hv + c1 };
                assert(n == p * qq + res) by (nonlinear_arith) requires n - t == (hv + c1) * p, res == (if c2 == 1 { t - p } else { t }), qq == (if c2 == 1 { hv + c1 + 1 } else { hv + c1 });
                lemma_fundamental_div_mod_converse(n, p, qq, res);
                assert(lo2.v() - rhs as int == res);
            }
            lo.sbb(&Self::from_word(rhs), Limb::ZERO)
        };
        proof { lo.lemma_range(); }

        lo
    }
}

} // verus!
fn main() {}
