use vstd::prelude::*;
verus! {

pub type Word = u64;
pub type WideWord = u128;
pub open spec fn B() -> int { 0x1_0000_0000_0000_0000 }

#[derive(Copy, Clone)]
pub struct ConstChoice(pub Word);
impl ConstChoice {
    pub open spec fn wf(&self) -> bool { self.0 == 0 || self.0 == u64::MAX }
    pub open spec fn t(&self) -> bool { self.0 == u64::MAX }
    #[verifier::external_body]
    pub const fn from_word_eq(x: Word, y: Word) -> (r: Self) ensures r.wf(), r.t() == (x == y) { unimplemented!() }
    #[verifier::external_body]
    pub const fn from_word_nonzero(x: Word) -> (r: Self) ensures r.wf(), r.t() == (x != 0) { unimplemented!() }
    #[verifier::external_body]
    pub const fn from_wide_word_le(x: WideWord, y: WideWord) -> (r: Self) ensures r.wf(), r.t() == (x <= y) { unimplemented!() }
    #[verifier::external_body]
    pub const fn or(&self, other: Self) -> (r: Self) requires self.wf(), other.wf() ensures r.wf(), r.t() == (self.t() || other.t()) { unimplemented!() }
    #[verifier::external_body]
    pub const fn select_word(&self, a: Word, b: Word) -> (r: Word) requires self.wf() ensures r == if self.t() { b } else { a } { unimplemented!() }
    #[verifier::external_body]
    pub const fn select_wide_word(&self, a: WideWord, b: WideWord) -> (r: WideWord) requires self.wf() ensures r == if self.t() { b } else { a } { unimplemented!() }
}

pub struct Reciprocal {
    pub divisor_normalized: Word,
    pub shift: u32,
    pub reciprocal: Word,
}
impl Reciprocal {
    pub open spec fn wf(&self) -> bool {
        let d = self.divisor_normalized as int;
        let v = self.reciprocal as int;
        &&& d >= B() / 2
        &&& (B() + v) * d <= B() * B() - 1
        &&& B() * B() - 1 < (B() + v) * d + d
        &&& self.shift < 64
    }
}

#[verifier::external_body]
pub const fn div2by1(u1: Word, u0: Word, reciprocal: &Reciprocal) -> (out: (Word, Word))
    requires reciprocal.wf(), u1 < reciprocal.divisor_normalized
    ensures
        out.0 as int * reciprocal.divisor_normalized as int + out.1 as int == u1 as int * B() + u0 as int,
        out.1 < reciprocal.divisor_normalized,
{ unimplemented!() }

pub open spec fn min_int(a: int, b: int) -> int { if a < b { a } else { b } }

/// Knuth 4.3.1 Theorem B, 3-by-2 form, integer-only
pub proof fn lemma_qhat_bound(qh: int, x: int, v1: int, v0: int, u0: int, q: int)
    requires
        B() / 2 <= v1 < B(), 0 <= v0 < B(), 0 <= u0 < B(), 0 <= x,
        0 <= qh <= B() - 1, qh * v1 <= x,
        q >= 0,
        q * (v1 * B() + v0) <= x * B() + u0 < (q + 1) * (v1 * B() + v0),
    ensures qh <= q + 2
{
    if qh >= q + 3 {
        let b = B();
        assert((q + 3) * v1 <= qh * v1) by (nonlinear_arith) requires q + 3 <= qh, v1 >= 0;
        assert((q + 3) * v1 * b <= x * b) by (nonlinear_arith) requires (q + 3) * v1 <= x, b > 0;
        assert((q + 1) * (v1 * b + v0) < (q + 1) * ((v1 + 1) * b)) by (nonlinear_arith) requires q + 1 > 0, v0 < b;
        assert((q + 1) * ((v1 + 1) * b) == (q + 1) * (v1 + 1) * b) by (nonlinear_arith);
        assert((q + 3) * v1 < (q + 1) * (v1 + 1)) by (nonlinear_arith)
            requires (q + 3) * v1 * b < (q + 1) * (v1 + 1) * b, b > 0;
        assert((q + 3) * v1 == q * v1 + 3 * v1) by (nonlinear_arith);
        assert((q + 1) * (v1 + 1) == q * v1 + q + v1 + 1) by (nonlinear_arith);
        assert(q >= b);
        assert(false);
    }
}

#[inline(always)]
pub const fn div3by2(
    u2: Word,
    u1: Word,
    u0: Word,
    v1_reciprocal: &Reciprocal,
    v0: Word,
) -> (ret__: Word)
    requires v1_reciprocal.wf(), v1_reciprocal.shift == 0, u2 <= v1_reciprocal.divisor_normalized,
    ensures ({
        let v = v1_reciprocal.divisor_normalized as int * B() + v0 as int;
        let u = (u2 as int * B() + u1 as int) * B() + u0 as int;
        ret__ as int == min_int(B() - 1, u / v)
    })
{
    debug_assert!(v1_reciprocal.shift == 0);
    debug_assert!(u2 <= v1_reciprocal.divisor_normalized);

    let ghost v1 = v1_reciprocal.divisor_normalized as int;
    let ghost vv = v1 * B() + v0 as int;
    let ghost x = u2 as int * B() + u1 as int;
    let ghost uu = x * B() + u0 as int;
    let ghost qq = uu / vv;
    proof {
        assert(vv >= B() / 2 * B()) by (nonlinear_arith) requires vv == v1 * B() + v0 as int, v1 >= B() / 2, v0 as int >= 0;
        assert(vv > 0);
        vstd::arithmetic::div_mod::lemma_fundamental_div_mod(uu, vv);
        vstd::arithmetic::div_mod::lemma_mod_bound(uu, vv);
        assert(uu >= 0) by (nonlinear_arith) requires uu == x * B() + u0 as int, x >= 0, u0 as int >= 0;
        vstd::arithmetic::div_mod::lemma_div_pos_is_pos(uu, vv);
        assert(vv * qq == qq * vv) by (nonlinear_arith);
        assert(qq * vv <= uu < (qq + 1) * vv) by (nonlinear_arith) requires uu == vv * qq + uu % vv, 0 <= uu % vv < vv;
    }

    let q_maxed = ConstChoice::from_word_eq(u2, v1_reciprocal.divisor_normalized);
    let (mut quo, rem) = div2by1(q_maxed.select_word(u2, 0), u1, v1_reciprocal);
    quo = q_maxed.select_word(quo, Word::MAX);
    let mut rem = q_maxed.select_wide_word(rem as WideWord, (u2 as WideWord) + (u1 as WideWord));
    proof {
        assert(quo as int * v1 + rem as int == x) by {
            if q_maxed.t() {
                assert((B() - 1) * v1 + v1 + u1 as int == v1 * B() + u1 as int) by (nonlinear_arith);
            } else {}
        }
        lemma_qhat_bound(quo as int, x, v1, v0 as int, u0 as int, qq);
        if !q_maxed.t() {
            let qi = quo as int; let ri = rem as int; let v0i = v0 as int; let u0i = u0 as int;
            assert(qq * (v1 * B()) <= qq * vv) by (nonlinear_arith) requires qq >= 0, vv == v1 * B() + v0i, v0i >= 0;
            assert(qq * (v1 * B()) == qq * v1 * B()) by (nonlinear_arith);
            assert(qq * v1 < x + 1) by (nonlinear_arith) requires qq * v1 * B() <= uu, uu == x * B() + u0i, u0i < B(), B() > 0;
            assert(qq < qi + 1) by (nonlinear_arith) requires qq * v1 <= qi * v1 + ri, ri < v1, v1 > 0;
        }
    }

    let mut i = 0;
    while i < 2
        invariant
            0 <= i <= 2,
            v1 == v1_reciprocal.divisor_normalized as int, B() / 2 <= v1 < B(),
            vv == v1 * B() + v0 as int, uu == x * B() + u0 as int, qq * vv <= uu < (qq + 1) * vv, qq >= 0, vv > 0,
            quo as int * v1 + rem as int == x,
            0 <= rem as int <= 2 * B() + (i as int) * B(),
            quo as int <= qq + 2 - i,
            quo as int >= min_int(B() - 1, qq),
        decreases 2 - i
    {
        proof {
            let qi = quo as int; let v0i = v0 as int;
            assert(qi * v0i <= 0xffff_ffff_ffff_ffff * 0xffff_ffff_ffff_ffff) by (nonlinear_arith) requires 0 <= qi <= 0xffff_ffff_ffff_ffff, 0 <= v0i <= 0xffff_ffff_ffff_ffff;
        }
        let qy = (quo as WideWord) * (v0 as WideWord);
        let rx = (rem << Word::BITS) | (u0 as WideWord);
        // If r < b and q*y[-2] > r*x[-1], then set q = q - 1 and r = r + v1
        let done = ConstChoice::from_word_nonzero((rem >> Word::BITS) as Word)
            .or(ConstChoice::from_wide_word_le(qy, rx));
        proof {
            assert(((rem >> 64) as u64 != 0) == (rem >= 0x1_0000_0000_0000_0000u128)) by (bit_vector) requires rem < 0x4_0000_0000_0000_0000u128;
            assert(rem < 0x1_0000_0000_0000_0000u128 ==> ((rem << 64) | (u0 as u128)) == rem * 0x1_0000_0000_0000_0000u128 + (u0 as u128)) by (bit_vector);
            // done <==> quo*vv <= uu
            assert(quo as int * vv - uu == quo as int * v0 as int - rem as int * B() - u0 as int) by (nonlinear_arith)
                requires vv == v1 * B() + v0 as int, uu == x * B() + u0 as int, quo as int * v1 + rem as int == x;
            if rem as int >= B() {
                let qi = quo as int; let v0i = v0 as int;
                assert(qi * v0i < B() * B()) by (nonlinear_arith) requires 0 <= qi, qi < B(), 0 <= v0i, v0i < B();
                let ri = rem as int;
                assert(ri * B() >= B() * B()) by (nonlinear_arith) requires ri >= B(), B() > 0;
            }
            assert(done.t() == (quo as int * vv <= uu));
            if !done.t() {
                // quo > qq
                assert(quo as int > qq) by (nonlinear_arith) requires quo as int * vv > uu, uu >= qq * vv, vv > 0;
                assert(quo >= 1);
            } else {
                assert(quo as int <= qq) by (nonlinear_arith) requires quo as int * vv <= uu, uu < (qq + 1) * vv, vv > 0;
            }
        }
        quo = done.select_word(quo.wrapping_sub(1), quo);
        rem = done.select_wide_word(rem + (v1_reciprocal.divisor_normalized as WideWord), rem);
        proof {
            assert((quo as int + 1) * v1 == quo as int * v1 + v1) by (nonlinear_arith);
        }
        i += 1;
    }

    quo
}

} // verus!
fn main() {}
