use vstd::prelude::*;
use vstd::arithmetic::power::*;
use vstd::arithmetic::div_mod::*;
verus! {

pub type Word = u64;
pub type WideWord = u128;

#[derive(Copy, Clone)]
pub struct Limb(pub Word);
impl Limb { pub const ZERO: Self = Limb(0); }

pub open spec fn B() -> int { 0x1_0000_0000_0000_0000 }
pub open spec fn bp(n: nat) -> int { pow(B(), n) }

pub open spec fn val(s: Seq<Limb>, n: nat) -> int
    decreases n
{
    if n == 0 { 0 } else { val(s, (n - 1) as nat) + s[n - 1].0 as int * bp((n - 1) as nat) }
}

pub proof fn lemma_val_ext(s: Seq<Limb>, t: Seq<Limb>, n: nat)
    requires forall|k: int| 0 <= k < n ==> s[k] == t[k],
    ensures val(s, n) == val(t, n),
    decreases n
{
    if n > 0 { lemma_val_ext(s, t, (n - 1) as nat); }
}

// val(s, b) - val(s, a) depends only on s[a..b]
pub proof fn lemma_val_ext_range(s: Seq<Limb>, t: Seq<Limb>, a: nat, b: nat)
    requires a <= b, forall|k: int| a <= k < b ==> s[k] == t[k],
    ensures val(s, b) - val(s, a) == val(t, b) - val(t, a),
    decreases b - a
{
    if b > a { lemma_val_ext_range(s, t, a, (b - 1) as nat); }
}

pub proof fn lemma_bp_succ(n: nat)
    ensures bp(n + 1) == B() * bp(n), bp(n) > 0, bp(0) == 1
{
    reveal(pow);
    lemma_pow_positive(B(), n);
    lemma_pow0(B());
}
pub proof fn lemma_bp_add(a: nat, b: nat)
    ensures bp(a + b) == bp(a) * bp(b)
{
    lemma_pow_adds(B(), a, b);
}

impl Limb {
    #[verifier::external_body]
    pub const fn mac(self, b: Limb, c: Limb, carry: Limb) -> (r: (Limb, Limb))
        ensures r.0.0 as int + r.1.0 as int * B() == self.0 as int + b.0 as int * c.0 as int + carry.0 as int
    { unimplemented!() }
    #[verifier::external_body]
    pub const fn adc(self, rhs: Limb, carry: Limb) -> (r: (Limb, Limb))
        ensures r.0.0 as int + r.1.0 as int * B() == self.0 as int + rhs.0 as int + carry.0 as int
    { unimplemented!() }
    #[verifier::external_body]
    pub const fn wrapping_mul(&self, rhs: Self) -> (r: Self)
        ensures r.0 as int == (self.0 as int * rhs.0 as int) % B()
    { unimplemented!() }
}

/// (a + ((a*k) % B) * m0) % B == 0 when (k*m0) % B == B-1
pub proof fn lemma_low_word_zero(a: int, k: int, m0: int)
    requires 0 <= a < B(), 0 <= k < B(), 0 <= m0 < B(), (k * m0) % B() == B() - 1
    ensures (a + ((a * k) % B()) * m0) % B() == 0
{
    let b = B();
    let u = (a * k) % b;
    // u*m0 ≡ a*k*m0 (mod b)
    lemma_mul_mod_noop_left(a * k, m0, b);
    assert((u * m0) % b == ((a * k) * m0) % b);
    assert((a * k) * m0 == a * (k * m0)) by (nonlinear_arith);
    lemma_mul_mod_noop_right(a, k * m0, b);
    assert((a * (k * m0)) % b == (a * (b - 1)) % b);
    // a*(b-1) = a*b - a
    assert(a * (b - 1) == a * b - a) by (nonlinear_arith);
    // (a + u*m0) % b == (a + (u*m0)%b) % b
    lemma_add_mod_noop_right(a, u * m0, b);
    lemma_add_mod_noop_right(a, a * (b - 1), b);
    assert((a + u * m0) % b == (a + a * (b - 1)) % b);
    assert(a + a * (b - 1) == a * b);
    lemma_mod_multiples_basic(a, b);
}

pub proof fn lemma_val_concat_tail(lo: Seq<Limb>, up: Seq<Limb>, n: nat, k: nat)
    requires lo.len() == n, up.len() >= k,
    ensures val(lo + up, n + k) - val(lo + up, n) == val(up, k) * bp(n),
    decreases k
{
    if k > 0 {
        lemma_val_concat_tail(lo, up, n, (k - 1) as nat);
        lemma_bp_add(n, (k - 1) as nat);
        assert((lo + up)[n + k - 1] == up[k - 1]);
        let a = up[k - 1].0 as int;
        assert(a * bp((n + k - 1) as nat) == a * bp((k - 1) as nat) * bp(n)) by (nonlinear_arith)
            requires bp((n + k - 1) as nat) == bp(n) * bp((k - 1) as nat);
        assert((val(up, (k - 1) as nat) + a * bp((k - 1) as nat)) * bp(n) == val(up, (k - 1) as nat) * bp(n) + a * bp((k - 1) as nat) * bp(n)) by (nonlinear_arith);
    } else {
        assert(0 * bp(n) == 0);
    }
}

pub open spec fn mont_rel(u: int, uv: int, meta: int, t: int, mv: int, r: int) -> bool { 0 <= u < r && (uv + meta * r) * r == t + u * mv }
pub open spec fn mont_post(u: int, up: Seq<Limb>, meta: Limb, lo0: Seq<Limb>, up0: Seq<Limb>, m: Seq<Limb>) -> bool {
    mont_rel(u, val(up, m.len()), meta.0 as int, val(lo0 + up0, 2 * m.len()), val(m, m.len()), bp(m.len()))
}

#[inline(always)]
const fn montgomery_reduction_inner(
    upper: &mut [Limb],
    lower: &mut [Limb],
    modulus: &[Limb],
    mod_neg_inv: Limb,
) -> (ret__: Limb)
    requires
        modulus.len() == old(upper).len(), modulus.len() == old(lower).len(),
        modulus.len() >= 1, modulus.len() < 0x1000_0000,
        (mod_neg_inv.0 as int * modulus[0].0 as int) % B() == B() - 1,
    ensures
        final(upper).len() == modulus.len(), final(lower).len() == modulus.len(),
        exists|u: int| mont_post(u, final(upper)@, ret__, old(lower)@, old(upper)@, modulus@),
{
    let nlimbs = modulus.len();
    debug_assert!(nlimbs == upper.len());
    debug_assert!(nlimbs == lower.len());
    let ghost n = nlimbs as nat;
    let ghost lo0 = lower@; let ghost up0 = upper@;
    let ghost c0 = lower@ + upper@;
    let ghost t = val(c0, 2 * n);
    let ghost mv = val(modulus@, n);
    let ghost mut uacc: int = 0;

    let mut meta_carry = Limb::ZERO;
    let mut new_sum;

    let mut i = 0;
    proof { lemma_bp_succ(0); }
    while i < nlimbs
        invariant
            n == nlimbs, nlimbs == modulus.len(), upper.len() == n, lower.len() == n, 1 <= n < 0x1000_0000,
            i <= n, mv == val(modulus@, n),
            (mod_neg_inv.0 as int * modulus[0].0 as int) % B() == B() - 1,
            0 <= uacc < bp(i as nat),
            val(lower@ + upper@, 2 * n) - val(lower@ + upper@, i as nat) + meta_carry.0 as int * bp((n + i) as nat) == t + uacc * mv,
        decreases n - i
    {
        let ghost cb = lower@ + upper@;
        let ghost meta_b = meta_carry;
        let u = lower[i].wrapping_mul(mod_neg_inv);

        let (_lw, mut carry) = lower[i].mac(u, modulus[0], Limb::ZERO);
        let mut new_limb;
        proof {
            lemma_low_word_zero(lower@[i as int].0 as int, mod_neg_inv.0 as int, modulus@[0].0 as int);
            // _lw + carry*B == a + u*m0, and (a+u*m0)%B==0, 0<=_lw<B => _lw == 0
            let a = lower@[i as int].0 as int; let m0 = modulus@[0].0 as int;
            assert(_lw.0 as int + carry.0 as int * B() == a + u.0 as int * m0);
            lemma_mod_multiples_vanish(carry.0 as int, _lw.0 as int, B());
            assert((_lw.0 as int + carry.0 as int * B()) % B() == (_lw.0 as int) % B()) by {
                assert(carry.0 as int * B() + _lw.0 as int == _lw.0 as int + carry.0 as int * B());
                assert(B() * carry.0 as int == carry.0 as int * B()) by (nonlinear_arith);
            }
            lemma_small_mod(_lw.0 as nat, B() as nat);
            assert(_lw.0 == 0);
            lemma_bp_succ(i as nat);
            assert(val(modulus@, 1) == modulus@[0].0 as int) by { reveal_with_fuel(val, 2); }
            let pi_ = bp(i as nat);
            assert(carry.0 as int * (B() * pi_) == a * pi_ + u.0 as int * m0 * pi_) by (nonlinear_arith)
                requires carry.0 as int * B() == a + u.0 as int * m0;
            assert(val(cb, (i + 1) as nat) == val(cb, i as nat) + a * pi_);
        }

        let mut j = 1;
        while j < (nlimbs - i)
            invariant
                n == nlimbs, nlimbs == modulus.len(), upper.len() == n, lower.len() == n, 1 <= n < 0x1000_0000,
                i < n, 1 <= j <= n - i, cb.len() == 2 * n,
                forall|k: int| 0 <= k <= i ==> (lower@ + upper@)[k] == cb[k],
                forall|k: int| i + j <= k < 2 * n ==> (lower@ + upper@)[k] == cb[k],
                val(lower@ + upper@, (i + j) as nat) - val(lower@ + upper@, (i + 1) as nat) + carry.0 as int * bp((i + j) as nat)
                    == val(cb, (i + j) as nat) - val(cb, i as nat) + u.0 as int * val(modulus@, j as nat) * bp(i as nat),
            decreases n - i - j
        {
            let ghost c_before = lower@ + upper@;
            let ghost carry_b = carry;
            let (t0_, t1_) = lower[i + j].mac(u, modulus[j], carry);
            new_limb = t0_; carry = t1_;
            lower[i + j] = new_limb;
            proof {
                let c_after = lower@ + upper@;
                let k = (i + j) as nat;
                assert(c_after =~= c_before.update(k as int, new_limb));
                lemma_val_ext(c_before, c_after, k);
                lemma_val_ext(c_before, c_after, (i + 1) as nat);
                lemma_bp_succ(k);
                lemma_bp_add(i as nat, j as nat);
                let pk = bp(k);
                let w = new_limb.0 as int; let cc = cb[k as int].0 as int;
                let x = u.0 as int; let y = modulus@[j as int].0 as int;
                let ca = carry.0 as int; let cbb = carry_b.0 as int;
                assert(w + ca * B() == cc + x * y + cbb);
                assert(w * pk + ca * (B() * pk) == cc * pk + x * y * pk + cbb * pk) by (nonlinear_arith)
                    requires w + ca * B() == cc + x * y + cbb;
                assert(x * y * pk == x * (y * bp(j as nat)) * bp(i as nat)) by (nonlinear_arith)
                    requires pk == bp(i as nat) * bp(j as nat);
                assert(x * (val(modulus@, j as nat) + y * bp(j as nat)) * bp(i as nat) == x * val(modulus@, j as nat) * bp(i as nat) + x * (y * bp(j as nat)) * bp(i as nat)) by (nonlinear_arith);
            }
            j += 1;
        }
        while j < nlimbs
            invariant
                n == nlimbs, nlimbs == modulus.len(), upper.len() == n, lower.len() == n, 1 <= n < 0x1000_0000,
                i < n, n - i <= j <= n, j >= 1, cb.len() == 2 * n,
                forall|k: int| 0 <= k <= i ==> (lower@ + upper@)[k] == cb[k],
                forall|k: int| i + j <= k < 2 * n ==> (lower@ + upper@)[k] == cb[k],
                val(lower@ + upper@, (i + j) as nat) - val(lower@ + upper@, (i + 1) as nat) + carry.0 as int * bp((i + j) as nat)
                    == val(cb, (i + j) as nat) - val(cb, i as nat) + u.0 as int * val(modulus@, j as nat) * bp(i as nat),
            decreases n - j
        {
            let ghost c_before = lower@ + upper@;
            let ghost carry_b = carry;
            let (t0_, t1_) = upper[i + j - nlimbs].mac(u, modulus[j], carry);
            new_limb = t0_; carry = t1_;
            upper[i + j - nlimbs] = new_limb;
            proof {
                let c_after = lower@ + upper@;
                let k = (i + j) as nat;
                assert(c_after =~= c_before.update(k as int, new_limb));
                lemma_val_ext(c_before, c_after, k);
                lemma_val_ext(c_before, c_after, (i + 1) as nat);
                lemma_bp_succ(k);
                lemma_bp_add(i as nat, j as nat);
                let pk = bp(k);
                let w = new_limb.0 as int; let cc = cb[k as int].0 as int;
                let x = u.0 as int; let y = modulus@[j as int].0 as int;
                let ca = carry.0 as int; let cbb = carry_b.0 as int;
                assert(w + ca * B() == cc + x * y + cbb);
                assert(w * pk + ca * (B() * pk) == cc * pk + x * y * pk + cbb * pk) by (nonlinear_arith)
                    requires w + ca * B() == cc + x * y + cbb;
                assert(x * y * pk == x * (y * bp(j as nat)) * bp(i as nat)) by (nonlinear_arith)
                    requires pk == bp(i as nat) * bp(j as nat);
                assert(x * (val(modulus@, j as nat) + y * bp(j as nat)) * bp(i as nat) == x * val(modulus@, j as nat) * bp(i as nat) + x * (y * bp(j as nat)) * bp(i as nat)) by (nonlinear_arith);
            }
            j += 1;
        }

        let ghost c_before = lower@ + upper@;
        let (t0_, t1_) = upper[i].adc(carry, meta_carry);
        new_sum = t0_; meta_carry = t1_;
        upper[i] = new_sum;
        proof {
            let c_after = lower@ + upper@;
            let k = (n + i) as nat;
            assert(c_after =~= c_before.update(k as int, new_sum));
            lemma_val_ext(c_before, c_after, k);
            lemma_val_ext(c_before, c_after, (i + 1) as nat);
            lemma_val_ext(c_before, cb, (i + 1) as nat);
            lemma_val_ext_range(c_after, cb, (k + 1) as nat, 2 * n);
            lemma_bp_succ(k);
            lemma_bp_succ(i as nat);
            let pk = bp(k);
            let w = new_sum.0 as int; let cc = cb[k as int].0 as int;
            let ca = carry.0 as int; let mb = meta_b.0 as int; let ma = meta_carry.0 as int;
            assert(c_before[k as int] == cb[k as int]);
            assert(w + ma * B() == cc + ca + mb);
            assert(w * pk + ma * (B() * pk) == cc * pk + ca * pk + mb * pk) by (nonlinear_arith)
                requires w + ma * B() == cc + ca + mb;
            assert(val(c_after, k + 1) == val(c_after, k) + w * pk);
            assert(val(cb, k + 1) == val(cb, k) + cc * pk);
            assert(val(cb, (i + 1) as nat) == val(cb, i as nat) + cb[i as int].0 as int * bp(i as nat));
            uacc = uacc + u.0 as int * bp(i as nat);
            assert((uacc - u.0 as int * bp(i as nat) + u.0 as int * bp(i as nat)) * mv == (uacc - u.0 as int * bp(i as nat)) * mv + u.0 as int * mv * bp(i as nat)) by (nonlinear_arith);
            assert(u.0 as int * bp(i as nat) <= (B() - 1) * bp(i as nat)) by (nonlinear_arith) requires 0 <= u.0 as int <= B() - 1, bp(i as nat) > 0;
            assert((B() - 1) * bp(i as nat) + bp(i as nat) == B() * bp(i as nat)) by (nonlinear_arith);
            assert(u.0 as int * bp(i as nat) >= 0) by (nonlinear_arith) requires 0 <= u.0 as int, bp(i as nat) > 0;
        }

        i += 1;
    }
    proof {
        let c = lower@ + upper@;
        lemma_bp_add(n, n);
        // val(c,2n) - val(c,n) == val(upper, n) * bp(n)
        lemma_val_concat_tail(lower@, upper@, n, n);
        assert((val(upper@, n) + meta_carry.0 as int * bp(n)) * bp(n) == val(upper@, n) * bp(n) + meta_carry.0 as int * (bp(n) * bp(n))) by (nonlinear_arith);
        assert(mont_post(uacc, upper@, meta_carry, lo0, up0, modulus@));
    }

    meta_carry
}

} // verus!
fn main() {}
