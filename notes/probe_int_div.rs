use vstd::prelude::*;
verus! {
pub type Word = u64;
#[derive(Copy, Clone)]
pub struct ConstChoice(pub Word);
impl ConstChoice {
    pub open spec fn wf(&self) -> bool { self.0 == 0 || self.0 == u64::MAX }
    pub open spec fn t(&self) -> bool { self.0 == u64::MAX }
    #[verifier::external_body] pub const fn ne(&self, o: Self) -> (r: Self) requires self.wf(), o.wf() ensures r.wf(), r.t() == (self.t() != o.t()) { unimplemented!() }
    #[verifier::external_body] pub const fn xor(&self, o: Self) -> (r: Self) requires self.wf(), o.wf() ensures r.wf(), r.t() == (self.t() != o.t()) { unimplemented!() }
    #[verifier::external_body] pub const fn and(&self, o: Self) -> (r: Self) requires self.wf(), o.wf() ensures r.wf(), r.t() == (self.t() && o.t()) { unimplemented!() }
}
pub struct ConstCtOption<T> { pub value: T, pub is_some: ConstChoice }
pub struct NonZero<T>(pub T);

/// abstract widths: W = 2^BITS, H = W/2
pub uninterp spec fn wid<const LIMBS: usize>() -> int;
#[verifier::external_body]
pub proof fn axiom_wid<const LIMBS: usize>() ensures wid::<LIMBS>() >= 2, wid::<LIMBS>() % 2 == 0 { }

#[derive(Copy, Clone)]
pub struct Uint<const LIMBS: usize> { pub limbs: [u64; LIMBS] }
#[derive(Copy, Clone)]
pub struct Int<const LIMBS: usize>(pub Uint<LIMBS>);

impl<const LIMBS: usize> Uint<LIMBS> {
    pub uninterp spec fn v(&self) -> int;
    #[verifier::external_body] pub proof fn range(&self) ensures 0 <= self.v() < wid::<LIMBS>() { }
    #[verifier::external_body] pub const fn ONE() -> (r: Self) ensures r.v() == 1 { unimplemented!() }
    #[verifier::external_body]
    pub const fn div_rem(&self, rhs: &NonZero<Self>) -> (r: (Self, Self)) requires rhs.0.v() != 0
        ensures r.0.v() * rhs.0.v() + r.1.v() == self.v(), 0 <= r.1.v() < rhs.0.v() { unimplemented!() }
    #[verifier::external_body] pub const fn is_nonzero(&self) -> (r: ConstChoice) ensures r.wf(), r.t() == (self.v() != 0) { unimplemented!() }
    #[verifier::external_body] pub const fn wrapping_add(&self, rhs: &Self) -> (r: Self) ensures r.v() == (self.v() + rhs.v()) % wid::<LIMBS>() { unimplemented!() }
    #[verifier::external_body] pub const fn wrapping_sub(&self, rhs: &Self) -> (r: Self) ensures r.v() == (self.v() - rhs.v()) % wid::<LIMBS>() { unimplemented!() }
    #[verifier::external_body] pub const fn select(a: &Self, b: &Self, c: ConstChoice) -> (r: Self) requires c.wf() ensures r == if c.t() { *b } else { *a } { unimplemented!() }
    #[verifier::external_body] pub const fn as_int(&self) -> (r: Int<LIMBS>) ensures r.0 == *self { unimplemented!() }
}
impl<const LIMBS: usize> Int<LIMBS> {
    pub open spec fn iv(&self) -> int { if self.0.v() < wid::<LIMBS>() / 2 { self.0.v() } else { self.0.v() - wid::<LIMBS>() } }
    #[verifier::external_body]
    pub const fn abs_sign(&self) -> (r: (Uint<LIMBS>, ConstChoice))
        ensures r.1.wf(), r.1.t() == (self.iv() < 0), r.0.v() == (if self.iv() < 0 { -self.iv() } else { self.iv() }) { unimplemented!() }
    #[verifier::external_body]
    pub const fn new_from_abs_sign(abs: Uint<LIMBS>, is_negative: ConstChoice) -> (r: ConstCtOption<Self>) requires is_negative.wf()
        ensures r.is_some.wf(),
            r.is_some.t() == (abs.v() <= wid::<LIMBS>() / 2 - 1 || (is_negative.t() && abs.v() == wid::<LIMBS>() / 2)),
            r.is_some.t() ==> r.value.iv() == (if is_negative.t() { -abs.v() } else { abs.v() }) { unimplemented!() }
    #[verifier::external_body]
    pub const fn wrapping_neg_if(&self, negate: ConstChoice) -> (r: Self) requires negate.wf()
        ensures r.0.v() == (if negate.t() { (wid::<LIMBS>() - self.0.v()) % wid::<LIMBS>() } else { self.0.v() }) { unimplemented!() }
}
impl<const LIMBS: usize> NonZero<Int<LIMBS>> {
    #[verifier::external_body]
    pub const fn abs_sign(&self) -> (r: (NonZero<Uint<LIMBS>>, ConstChoice)) requires self.0.iv() != 0
        ensures r.1.wf(), r.1.t() == (self.0.iv() < 0), r.0.0.v() == (if self.0.iv() < 0 { -self.0.iv() } else { self.0.iv() }), r.0.0.v() != 0 { unimplemented!() }
}

pub open spec fn trunc_div(n: int, d: int) -> int { if (n >= 0) == (d > 0) { (if n >= 0 { n } else { -n }) / (if d > 0 { d } else { -d }) } else { -((if n >= 0 { n } else { -n }) / (if d > 0 { d } else { -d })) } }

impl<const LIMBS: usize> Int<LIMBS> {
    const fn div_rem_base(
        &self,
        rhs: &NonZero<Self>,
    ) -> (ret__: (Uint<{ LIMBS }>, Uint<{ LIMBS }>, ConstChoice, ConstChoice))
        requires rhs.0.iv() != 0
        ensures ret__.2.wf(), ret__.3.wf(), ret__.2.t() == (self.iv() < 0), ret__.3.t() == (rhs.0.iv() < 0),
            ({ let na = if self.iv() < 0 { -self.iv() } else { self.iv() }; let da = if rhs.0.iv() < 0 { -rhs.0.iv() } else { rhs.0.iv() };
               ret__.0.v() * da + ret__.1.v() == na && 0 <= ret__.1.v() < da })
    {
        // Step 1: split operands into signs and magnitudes.
        let (lhs_mag, lhs_sgn) = self.abs_sign();
        let (rhs_mag, rhs_sgn) = rhs.abs_sign();

        // Step 2. Divide magnitudes
        // safe to unwrap since rhs is NonZero.
        let (quotient, remainder) = lhs_mag.div_rem(&rhs_mag);

        (quotient, remainder, lhs_sgn, rhs_sgn)
    }

    pub const fn checked_div_rem(&self, rhs: &NonZero<Self>) -> (ret__: (ConstCtOption<Self>, Self))
        requires rhs.0.iv() != 0
        ensures
            self.iv() == trunc_q(self.iv(), rhs.0.iv()) * rhs.0.iv() + ret__.1.iv(),
            (if rhs.0.iv() < 0 { -rhs.0.iv() } else { rhs.0.iv() }) > (if ret__.1.iv() < 0 { -ret__.1.iv() } else { ret__.1.iv() }),
            ret__.1.iv() == 0 || (ret__.1.iv() < 0) == (self.iv() < 0),
            ret__.0.is_some.t() == !(self.iv() == -(wid::<LIMBS>() / 2) && rhs.0.iv() == -1),
            ret__.0.is_some.t() ==> ret__.0.value.iv() == trunc_q(self.iv(), rhs.0.iv()),
    {
        let (quotient, remainder, lhs_sgn, rhs_sgn) = self.div_rem_base(rhs);
        let opposing_signs = lhs_sgn.ne(rhs_sgn);
        proof {
            axiom_wid::<LIMBS>(); quotient.range(); remainder.range(); self.0.range(); rhs.0.0.range();
            let n = self.iv(); let d = rhs.0.iv(); let na = if n < 0 { -n } else { n }; let da = if d < 0 { -d } else { d };
            let q = quotient.v(); let r = remainder.v();
            lemma_trunc(n, d, q, r);
            // two's complement negation facts
            let ww = wid::<LIMBS>();
            vstd::arithmetic::div_mod::lemma_mod_self_0(ww);
            if r > 0 { vstd::arithmetic::div_mod::lemma_small_mod((ww - r) as nat, ww as nat); }
            assert(da <= ww / 2);
            // magnitude bounds: na <= H, so q <= H; q == H only if na == H and da == 1
            assert(q <= na) by (nonlinear_arith) requires q * da + r == na, da >= 1, r >= 0, q >= 0;
            assert(na <= ww / 2);
            if q == ww / 2 { assert(da == 1) by (nonlinear_arith) requires q * da + r == na, na <= q, da >= 1, r >= 0, q >= 1; assert(na == ww / 2); assert(n == -(ww / 2)); }
            if n == -(ww / 2) && d == -1 { assert(q == ww / 2) by (nonlinear_arith) requires q * da + r == na, da == 1, 0 <= r < da, na == ww / 2; }
            if n == -(ww / 2) && d == 1 { assert(q == ww / 2) by (nonlinear_arith) requires q * da + r == na, da == 1, 0 <= r < da, na == ww / 2; }
        }
        (
            Self::new_from_abs_sign(quotient, opposing_signs),
            remainder.as_int().wrapping_neg_if(lhs_sgn), // as_int mapping is safe; remainder < 2^{k-1} by construction.
        )
    }

    /// floor division with the remainder negated by the DIVISOR's sign (proposed fix for F10)
    pub const fn checked_div_rem_floor_fixed(&self, rhs: &NonZero<Self>) -> (ret__: (ConstCtOption<Self>, Self))
        requires rhs.0.iv() != 0
        ensures
            self.iv() == floor_q(self.iv(), rhs.0.iv()) * rhs.0.iv() + ret__.1.iv(),
            ret__.1.iv() == 0 || (ret__.1.iv() < 0) == (rhs.0.iv() < 0),
            (if rhs.0.iv() < 0 { -rhs.0.iv() } else { rhs.0.iv() }) > (if ret__.1.iv() < 0 { -ret__.1.iv() } else { ret__.1.iv() }),
            ret__.0.is_some.t() == !(self.iv() == -(wid::<LIMBS>() / 2) && rhs.0.iv() == -1),
            ret__.0.is_some.t() ==> ret__.0.value.iv() == floor_q(self.iv(), rhs.0.iv()),
    {
        let (lhs_mag, lhs_sgn) = self.abs_sign();
        let (rhs_mag, rhs_sgn) = rhs.abs_sign();
        let (quotient, remainder) = lhs_mag.div_rem(&rhs_mag);
        let ghost q0 = quotient.v(); let ghost r0 = remainder.v();
        proof { quotient.range(); remainder.range(); }

        // Modify quotient and remainder when lhs and rhs have opposing signs and the remainder is
        // non-zero.
        let opposing_signs = lhs_sgn.xor(rhs_sgn);
        let modify = remainder.is_nonzero().and(opposing_signs);

        // Increase the quotient by one.
        let quotient_plus_one = quotient.wrapping_add(&Uint::ONE()); // cannot wrap.
        let quotient = Uint::select(&quotient, &quotient_plus_one, modify);

        // Invert the remainder.
        let inv_remainder = rhs_mag.0.wrapping_sub(&remainder);
        let remainder = Uint::select(&remainder, &inv_remainder, modify);
        proof {
            axiom_wid::<LIMBS>(); quotient.range(); remainder.range(); self.0.range(); rhs.0.0.range(); rhs_mag.0.range(); lhs_mag.range();
            let n = self.iv(); let d = rhs.0.iv(); let na = if n < 0 { -n } else { n }; let da = if d < 0 { -d } else { d };
            let ww = wid::<LIMBS>();
            assert(q0 <= na) by (nonlinear_arith) requires q0 * da + r0 == na, da >= 1, r0 >= 0, q0 >= 0;
            if modify.t() {
                // q0 + 1 does not wrap: r0 != 0 so q0*da < na <= H => q0 < H
                assert(q0 < na) by (nonlinear_arith) requires q0 * da + r0 == na, da >= 1, r0 >= 1, q0 >= 0;
                vstd::arithmetic::div_mod::lemma_small_mod((q0 + 1) as nat, ww as nat);
                vstd::arithmetic::div_mod::lemma_small_mod((da - r0) as nat, ww as nat);
            }
            lemma_floor(n, d, q0, r0);
            // two's complement negation facts
                        vstd::arithmetic::div_mod::lemma_mod_self_0(ww);
            if remainder.v() > 0 { vstd::arithmetic::div_mod::lemma_small_mod((ww - remainder.v()) as nat, ww as nat); }
            assert(da <= ww / 2);
            assert(na <= ww / 2);
            let qm = quotient.v();
            if modify.t() { assert(qm == q0 + 1); assert(qm <= na); } else { assert(qm == q0); }
            if qm == ww / 2 {
                assert(na == ww / 2); assert(n == -(ww / 2));
                if modify.t() { assert(false) by (nonlinear_arith) requires q0 * da + r0 == na, q0 + 1 == na, r0 >= 1, r0 < da, da >= 1, q0 >= 0, na >= 2; }
                assert(da == 1) by (nonlinear_arith) requires q0 * da + r0 == na, na == q0, da >= 1, r0 >= 0, q0 >= 1;
            }
            if n == -(ww / 2) && (d == -1 || d == 1) { assert(q0 == ww / 2 && r0 == 0) by (nonlinear_arith) requires q0 * da + r0 == na, da == 1, 0 <= r0 < da, na == ww / 2; }
        }

        // Negate output when lhs and rhs have opposing signs.
        let quotient = Int::new_from_abs_sign(quotient, opposing_signs);
        let remainder = remainder.as_int().wrapping_neg_if(rhs_sgn); // FIX: sign of the divisor

        (quotient, remainder)
    }
}

pub open spec fn trunc_q(n: int, d: int) -> int { trunc_div(n, d) }
/// mathematical floor quotient: the unique q with q*d <= n < (q+1)*d (d>0) resp. mirrored for d<0
pub open spec fn floor_q(n: int, d: int) -> int
{
    let na = if n < 0 { -n } else { n }; let da = if d < 0 { -d } else { d };
    if (n >= 0) == (d > 0) { na / da } else if na % da == 0 { -(na / da) } else { -(na / da) - 1 }
}

pub proof fn lemma_trunc(n: int, d: int, q: int, r: int)
    requires d != 0, ({ let na = if n < 0 { -n } else { n }; let da = if d < 0 { -d } else { d }; q * da + r == na && 0 <= r < da }), q >= 0
    ensures ({ let na = if n < 0 { -n } else { n }; let da = if d < 0 { -d } else { d }; na / da == q && na % da == r }),
        n == trunc_div(n, d) * d + (if n < 0 { -r } else { r }),
{
    let na = if n < 0 { -n } else { n }; let da = if d < 0 { -d } else { d };
    assert(na == da * q + r) by (nonlinear_arith) requires q * da + r == na;
    vstd::arithmetic::div_mod::lemma_fundamental_div_mod_converse(na, da, q, r);
    assert(q * d == -(q * (-d))) by (nonlinear_arith);
    assert((-q) * d == -(q * d)) by (nonlinear_arith);
    assert((-q) * (-d) == q * d) by (nonlinear_arith);
}

pub proof fn lemma_floor(n: int, d: int, q: int, r: int)
    requires d != 0, ({ let na = if n < 0 { -n } else { n }; let da = if d < 0 { -d } else { d }; q * da + r == na && 0 <= r < da }), q >= 0
    ensures ({
        let da = if d < 0 { -d } else { d };
        let opp = (n < 0) != (d < 0); let md = opp && r != 0;
        let qm = if md { q + 1 } else { q }; let rm = if md { da - r } else { r };
        let qs = if opp { -qm } else { qm }; let rs = if d < 0 { -rm } else { rm };
        &&& qs == floor_q(n, d) &&& n == qs * d + rs &&& 0 <= rm < da })
{
    lemma_trunc(n, d, q, r);
    let da = if d < 0 { -d } else { d };
    assert((q + 1) * da == q * da + da) by (nonlinear_arith);
    assert(q * d == -(q * (-d))) by (nonlinear_arith);
    assert((-q) * d == -(q * d)) by (nonlinear_arith);
    assert((-q) * (-d) == q * d) by (nonlinear_arith);
    assert((-(q + 1)) * d == -(q * d) - d) by (nonlinear_arith);
    assert((-(q + 1)) * (-d) == q * d + d) by (nonlinear_arith);
    assert((-q - 1) == -(q + 1));
}

} // verus!
fn main() {}
