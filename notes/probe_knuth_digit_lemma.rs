use vstd::prelude::*;
use vstd::arithmetic::div_mod::*;
verus! {
pub open spec fn B() -> int { 0x1_0000_0000_0000_0000 }
pub open spec fn min_int(a: int, b: int) -> int { if a < b { a } else { b } }

/// Knuth D: the 3-by-2 estimate is the true digit or one too large.
pub proof fn lemma_knuth_digit(wv: int, y: int, u3: int, v2: int, wl: int, yl: int, e: int, q: int)
    requires
        e >= 1, wv == u3 * e + wl, 0 <= wl < e, y == v2 * e + yl, 0 <= yl < e,
        0 <= wv < y * B(), 2 * y >= B() * B() * e, u3 >= 0, v2 > 0,
        q == min_int(B() - 1, u3 / v2),
    ensures
        wv / y <= q <= wv / y + 1, 0 <= wv / y <= B() - 1,
{
    let b = B();
    let qt = wv / y;
    assert(y > 0) by (nonlinear_arith) requires 2 * y >= b * b * e, e >= 1, b == B();
    lemma_fundamental_div_mod(wv, y);
    lemma_mod_bound(wv, y);
    lemma_div_pos_is_pos(wv, y);
    assert(y * qt == qt * y) by (nonlinear_arith);
    assert(qt * y <= wv < (qt + 1) * y) by (nonlinear_arith) requires wv == y * qt + wv % y, 0 <= wv % y < y;
    // qt <= b-1
    assert(qt < b) by (nonlinear_arith) requires qt * y <= wv, wv < y * b, y > 0;
    let q3 = u3 / v2;
    lemma_fundamental_div_mod(u3, v2);
    lemma_mod_bound(u3, v2);
    lemma_div_pos_is_pos(u3, v2);
    assert(v2 * q3 == q3 * v2) by (nonlinear_arith);
    assert(q3 * v2 <= u3 < (q3 + 1) * v2) by (nonlinear_arith) requires u3 == v2 * q3 + u3 % v2, 0 <= u3 % v2 < v2;
    // qt <= q3
    assert(qt * (v2 * e) <= qt * y) by (nonlinear_arith) requires qt >= 0, y == v2 * e + yl, yl >= 0;
    assert(qt * (v2 * e) == qt * v2 * e) by (nonlinear_arith);
    assert(qt * v2 < u3 + 1) by (nonlinear_arith) requires qt * v2 * e <= wv, wv == u3 * e + wl, wl < e, e >= 1;
    assert(qt < q3 + 1) by (nonlinear_arith) requires qt * v2 <= u3, u3 < (q3 + 1) * v2, v2 > 0;
    assert(qt <= q);
    // q <= qt + 1
    if q >= qt + 2 {
        assert(q <= q3);
        assert(q * v2 <= u3) by (nonlinear_arith) requires q <= q3, q3 * v2 <= u3, v2 > 0;
        assert((qt + 2) * v2 <= q * v2) by (nonlinear_arith) requires qt + 2 <= q, v2 > 0;
        assert((qt + 2) * v2 * e <= u3 * e) by (nonlinear_arith) requires (qt + 2) * v2 <= u3, e >= 1;
        // (qt+2)*v2*e = (qt+2)*(y - yl)
        assert((qt + 2) * v2 * e == (qt + 2) * y - (qt + 2) * yl) by (nonlinear_arith) requires y == v2 * e + yl;
        assert((qt + 2) * yl <= (qt + 2) * e) by (nonlinear_arith) requires qt + 2 >= 0, yl <= e;
        // wv >= u3*e >= (qt+2)*y - (qt+2)*e ; wv < (qt+1)*y  => y < (qt+2)*e
        assert((qt + 2) * y == (qt + 1) * y + y) by (nonlinear_arith);
        assert(y < (qt + 2) * e);
        assert((qt + 2) * e <= (b + 1) * e) by (nonlinear_arith) requires qt + 2 <= b + 1, e >= 1;
        assert(b * b * e > 2 * ((b + 1) * e)) by (nonlinear_arith) requires e >= 1, b == 0x1_0000_0000_0000_0000;
        assert(false);
    }
}
}
fn main(){}
