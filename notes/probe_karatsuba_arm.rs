use vstd::prelude::*;
use vstd::arithmetic::power::*;
use vstd::arithmetic::div_mod::*;
verus! {

pub type Word = u64;
#[derive(Copy, Clone)]
pub struct Limb(pub Word);
impl Limb {
    pub const ZERO: Self = Limb(0);
    pub const ONE: Self = Limb(1);
    #[verifier::external_body]
    pub const fn sbb(self, rhs: Limb, borrow: Limb) -> (r: (Limb, Limb))
        requires borrow.0 == 0 || borrow.0 == u64::MAX
        ensures r.1.0 == 0 || r.1.0 == u64::MAX, r.0.0 as int - bb(r.1) * B() == self.0 as int - rhs.0 as int - bb(borrow)
    { unimplemented!() }
    #[verifier::external_body]
    pub const fn select(a: Self, b: Self, c: ConstChoice) -> (r: Self) requires c.wf() ensures r == if c.t() { b } else { a } { unimplemented!() }
    #[verifier::external_body]
    pub const fn wrapping_add(&self, rhs: Self) -> (r: Self) ensures r.0 as int == (self.0 as int + rhs.0 as int) % B() { unimplemented!() }
}
pub open spec fn bb(l: Limb) -> int { if l.0 == u64::MAX { 1 } else { 0 } }
pub open spec fn B() -> int { 0x1_0000_0000_0000_0000 }
pub open spec fn bp(n: nat) -> int { pow(B(), n) }
pub open spec fn val(s: Seq<Limb>, n: nat) -> int
    decreases n
{ if n == 0 { 0 } else { val(s, (n - 1) as nat) + s[n - 1].0 as int * bp((n - 1) as nat) } }

pub proof fn lemma_bp_succ(n: nat)
    ensures bp(n + 1) == B() * bp(n), bp(n) > 0, bp(0) == 1
{ reveal(pow); lemma_pow_positive(B(), n); lemma_pow0(B()); }
pub proof fn lemma_bp_add(a: nat, b: nat)
    ensures bp(a + b) == bp(a) * bp(b)
{ lemma_pow_adds(B(), a, b); }
pub proof fn lemma_val_ext(s: Seq<Limb>, t: Seq<Limb>, n: nat)
    requires forall|k: int| 0 <= k < n ==> s[k] == t[k],
    ensures val(s, n) == val(t, n),
    decreases n
{ if n > 0 { lemma_val_ext(s, t, (n - 1) as nat); } }
pub proof fn lemma_val_bound(s: Seq<Limb>, n: nat)
    ensures 0 <= val(s, n) <= bp(n) - 1
    decreases n
{
    lemma_bp_succ(0);
    if n > 0 {
        lemma_val_bound(s, (n - 1) as nat);
        lemma_bp_succ((n - 1) as nat);
        let x = s[n - 1].0 as int; let pb = bp((n - 1) as nat);
        assert(0 <= x * pb <= (B() - 1) * pb) by (nonlinear_arith) requires 0 <= x <= B() - 1, pb > 0;
        assert((B() - 1) * pb == B() * pb - pb) by (nonlinear_arith);
    }
}
/// val(s, h + m) == val(s[0..h], h) + val(s[h..], m) * B^h
pub proof fn lemma_val_split(s: Seq<Limb>, h: nat, m: nat)
    requires h + m <= s.len()
    ensures val(s, h + m) == val(s.subrange(0, h as int), h) + val(s.subrange(h as int, s.len() as int), m) * bp(h)
    decreases m
{
    if m > 0 {
        lemma_val_split(s, h, (m - 1) as nat);
        lemma_bp_add(h, (m - 1) as nat);
        let t = s.subrange(h as int, s.len() as int);
        assert(t[m - 1] == s[h + m - 1]);
        let a = t[m - 1].0 as int;
        assert((val(t, (m - 1) as nat) + a * bp((m - 1) as nat)) * bp(h) == val(t, (m - 1) as nat) * bp(h) + a * (bp(h) * bp((m - 1) as nat))) by (nonlinear_arith);
        assert((h + m - 1) as nat == (h + (m - 1)) as nat);
    } else {
        lemma_val_ext(s, s.subrange(0, h as int), h);
        assert(0 * bp(h) == 0);
    }
}

#[derive(Copy, Clone)]
pub struct ConstChoice(pub Word);
impl ConstChoice {
    pub open spec fn wf(&self) -> bool { self.0 == 0 || self.0 == u64::MAX }
    pub open spec fn t(&self) -> bool { self.0 == u64::MAX }
    #[verifier::external_body]
    pub const fn from_word_mask(value: Word) -> (r: Self) requires value == 0 || value == u64::MAX ensures r.0 == value { unimplemented!() }
    #[verifier::external_body]
    pub const fn xor(&self, other: Self) -> (r: Self) requires self.wf(), other.wf() ensures r.wf(), r.t() == (self.t() != other.t()) { unimplemented!() }
}

pub struct Uint<const LIMBS: usize> { pub limbs: [Limb; LIMBS] }
impl<const LIMBS: usize> Uint<LIMBS> {
    pub open spec fn v(&self) -> int { val(self.limbs@, LIMBS as nat) }
    pub open spec fn w() -> int { bp(LIMBS as nat) }
    #[verifier::external_body]
    pub const fn ZERO() -> (r: Self) ensures r.v() == 0, forall|k: int| 0 <= k < LIMBS ==> r.limbs@[k].0 == 0 { unimplemented!() }
    #[verifier::external_body]
    pub const fn select(a: &Self, b: &Self, c: ConstChoice) -> (r: Self) requires c.wf() ensures r == if c.t() { *b } else { *a } { unimplemented!() }
    #[verifier::external_body]
    pub const fn wrapping_neg(&self) -> (r: Self) ensures r.v() == (if self.v() == 0 { 0 } else { Self::w() - self.v() }) { unimplemented!() }
    #[verifier::external_body]
    pub const fn not(&self) -> (r: Self) ensures r.v() == Self::w() - 1 - self.v() { unimplemented!() }
    #[verifier::external_body]
    pub const fn adc(&self, rhs: &Self, carry: Limb) -> (r: (Self, Limb))
        ensures r.0.v() + r.1.0 as int * Self::w() == self.v() + rhs.v() + carry.0 as int
    { unimplemented!() }
}
impl Uint<16> {
    #[verifier::external_body]
    pub const fn concat(&self, hi: &Self) -> (r: Uint<32>) ensures r.v() == self.v() + hi.v() * bp(16) { unimplemented!() }
}

pub proof fn lemma_scale(l1: int, l2: int, r1: int, r2: int, r3: int, beta: int, w: int, wn: int)
    requires l1 + l2 * beta == r1 + r2 + r3, wn == beta * w
    ensures l1 * w + l2 * wn == r1 * w + r2 * w + r3 * w
{
    assert((l1 + l2 * beta) * w == l1 * w + l2 * (beta * w)) by (nonlinear_arith);
    assert((r1 + r2 + r3) * w == r1 * w + r2 * w + r3 * w) by (nonlinear_arith);
}
pub proof fn lemma_carry_le(l1: int, c: int, beta: int, a: int, b: int, cin: int, k: int)
    requires l1 + c * beta == a + b + cin, 0 <= l1, 0 <= a <= beta - 1, 0 <= b <= beta - 1, 0 <= cin <= k, 1 <= k <= 2, beta >= 4, c >= 0
    ensures c <= k
{
    assert(c <= k) by (nonlinear_arith) requires c * beta <= 2 * beta - 2 + k, k <= 2, k >= 1, beta >= 4, c >= 0;
}

pub struct UintKaratsubaMul<const LIMBS: usize>;

impl UintKaratsubaMul<16> {
    #[verifier::external_body]
    pub const fn multiply(lhs: &[Limb], rhs: &[Limb]) -> (r: (Uint<16>, Uint<16>))
        requires lhs.len() == 16, rhs.len() == 16
        ensures r.0.v() + r.1.v() * bp(16) == val(lhs@, 16) * val(rhs@, 16)
    { unimplemented!() }
}

impl UintKaratsubaMul<32> {
    pub const fn multiply(
        lhs: &[Limb],
        rhs: &[Limb],
    ) -> (ret__: (Uint<32>, Uint<32>))
        requires lhs.len() == 32, rhs.len() == 32
        ensures ret__.0.v() + ret__.1.v() * bp(32) == val(lhs@, 32) * val(rhs@, 32)
    {
        let (x0, x1) = lhs.split_at(16);
        let (y0, y1) = rhs.split_at(16);
        let ghost be = bp(16);
        let ghost x0v = val(x0@, 16); let ghost x1v = val(x1@, 16); let ghost y0v = val(y0@, 16); let ghost y1v = val(y1@, 16);
        proof {
            lemma_val_split(lhs@, 16, 16); lemma_val_split(rhs@, 16, 16);
            lemma_val_bound(x0@, 16); lemma_val_bound(x1@, 16); lemma_val_bound(y0@, 16); lemma_val_bound(y1@, 16);
            lemma_bp_succ(16); lemma_bp_succ(0);
        }

        // Calculate z1 = (x0 - x1)(y1 - y0)
        let mut l0 = Uint::<16>::ZERO();
        let mut l1 = Uint::<16>::ZERO();
        let mut l0b = Limb::ZERO;
        let mut l1b = Limb::ZERO;
        let mut i = 0;
        while i < 16
            invariant 0 <= i <= 16, x0.len() == 16, x1.len() == 16, y0.len() == 16, y1.len() == 16,
                l0b.0 == 0 || l0b.0 == u64::MAX, l1b.0 == 0 || l1b.0 == u64::MAX,
                val(l0.limbs@, i as nat) - bb(l0b) * bp(i as nat) == val(x0@, i as nat) - val(x1@, i as nat),
                val(l1.limbs@, i as nat) - bb(l1b) * bp(i as nat) == val(y1@, i as nat) - val(y0@, i as nat),
            decreases 16 - i
        {
            let ghost a0 = l0.limbs@; let ghost a1 = l1.limbs@; let ghost b0 = l0b; let ghost b1 = l1b;
            let (t0_, t1_) = x0[i].sbb(x1[i], l0b);
            l0.limbs[i] = t0_; l0b = t1_;
            let (t2_, t3_) = y1[i].sbb(y0[i], l1b);
            l1.limbs[i] = t2_; l1b = t3_;
            proof {
                lemma_val_ext(a0, l0.limbs@, i as nat); lemma_val_ext(a1, l1.limbs@, i as nat);
                lemma_bp_succ(i as nat);
                let pk = bp(i as nat);
                assert((t0_.0 as int - bb(l0b) * B()) * pk == (x0@[i as int].0 as int - x1@[i as int].0 as int - bb(b0)) * pk);
                assert((t0_.0 as int - bb(l0b) * B()) * pk == t0_.0 as int * pk - bb(l0b) * (B() * pk)) by (nonlinear_arith);
                assert((x0@[i as int].0 as int - x1@[i as int].0 as int - bb(b0)) * pk == x0@[i as int].0 as int * pk - x1@[i as int].0 as int * pk - bb(b0) * pk) by (nonlinear_arith);
                assert((t2_.0 as int - bb(l1b) * B()) * pk == (y1@[i as int].0 as int - y0@[i as int].0 as int - bb(b1)) * pk);
                assert((t2_.0 as int - bb(l1b) * B()) * pk == t2_.0 as int * pk - bb(l1b) * (B() * pk)) by (nonlinear_arith);
                assert((y1@[i as int].0 as int - y0@[i as int].0 as int - bb(b1)) * pk == y1@[i as int].0 as int * pk - y0@[i as int].0 as int * pk - bb(b1) * pk) by (nonlinear_arith);
            }
            i += 1;
        }
        let ghost d0 = x0v - x1v; let ghost d1 = y1v - y0v;
        proof {
            lemma_val_bound(l0.limbs@, 16); lemma_val_bound(l1.limbs@, 16);
            assert(bb(l0b) * be == (if bb(l0b) == 1 { be } else { 0 })) by (nonlinear_arith) requires bb(l0b) == 0 || bb(l0b) == 1;
            assert(bb(l1b) * be == (if bb(l1b) == 1 { be } else { 0 })) by (nonlinear_arith) requires bb(l1b) == 0 || bb(l1b) == 1;
            assert((bb(l0b) == 1) == (d0 < 0));
            assert((bb(l1b) == 1) == (d1 < 0));
        }
        l0 = Uint::select(
            &l0,
            &l0.wrapping_neg(),
            ConstChoice::from_word_mask(l0b.0),
        );
        l1 = Uint::select(
            &l1,
            &l1.wrapping_neg(),
            ConstChoice::from_word_mask(l1b.0),
        );
        proof {
            assert(l0.v() == (if d0 < 0 { -d0 } else { d0 }));
            assert(l1.v() == (if d1 < 0 { -d1 } else { d1 }));
        }
        let z1 = UintKaratsubaMul::<16>::multiply(&l0.limbs, &l1.limbs);
        let z1_neg = ConstChoice::from_word_mask(l0b.0)
            .xor(ConstChoice::from_word_mask(l1b.0));
        let ghost z1v = z1.0.v() + z1.1.v() * be;
        let ghost sgn: int = if z1_neg.t() { -1 } else { 1 };
        proof {
            // d0*d1 == sgn * z1v
            assert(d0 * d1 == sgn * z1v) by (nonlinear_arith)
                requires z1v == (if d0 < 0 { -d0 } else { d0 }) * (if d1 < 0 { -d1 } else { d1 }),
                    sgn == (if (d0 < 0) != (d1 < 0) { -1int } else { 1int });
        }

        // Conditionally add or subtract z1•b depending on its sign
        let mut res = (Uint::ZERO(), z1.0, z1.1, Uint::ZERO());
        res.0 = Uint::select(&res.0, &res.0.not(), z1_neg);
        res.1 = Uint::select(&res.1, &res.1.not(), z1_neg);
        res.2 = Uint::select(&res.2, &res.2.not(), z1_neg);
        res.3 = Uint::select(&res.3, &res.3.not(), z1_neg);
        let ghost i0 = res.0.v(); let ghost i1 = res.1.v(); let ghost i2 = res.2.v(); let ghost i3 = res.3.v();

        // Calculate z0 = x0•y0
        let z0 = UintKaratsubaMul::<16>::multiply(&x0, &y0);
        // Calculate z2 = x1•y1
        let z2 = UintKaratsubaMul::<16>::multiply(&x1, &y1);

        // Add z0 + (z0 + z2)•b + z2•b^2
        let mut carry = Limb::select(Limb::ZERO, Limb::ONE, z1_neg);
        let ghost cin = carry.0 as int;
        let (t0_, t1_) = res.0.adc(&z0.0, carry);
        res.0 = t0_; carry = t1_;
        let ghost c1 = carry.0 as int;
        let (t2_, t3_) = res.1.adc(&z0.1, carry);
        res.1 = t2_; carry = t3_;
        let ghost c2 = carry.0 as int; let ghost r1a = res.1.v(); let ghost g1a = res.1;
        let mut carry2;
        let (t4_, t5_) = res.1.adc(&z0.0, Limb::ZERO);
        res.1 = t4_; carry2 = t5_;
        let ghost c3 = carry2.0 as int; let ghost r1b = res.1.v(); let ghost g1b = res.1;
        proof {
            lemma_val_bound(res.1.limbs@, 16); lemma_val_bound(res.0.limbs@, 16); lemma_val_bound(z0.0.limbs@, 16); lemma_val_bound(z0.1.limbs@, 16);
            lemma_val_bound(z2.0.limbs@, 16); lemma_val_bound(z2.1.limbs@, 16); lemma_val_bound(res.2.limbs@, 16); lemma_val_bound(res.3.limbs@, 16);
            lemma_val_bound(z1.0.limbs@, 16); lemma_val_bound(z1.1.limbs@, 16);
            assert(be >= 4) by { lemma_bp_succ(15); assert(be == B() * bp(15)); assert(B() * bp(15) >= B()) by (nonlinear_arith) requires bp(15) >= 1, B() > 0; }
            assert(0 <= i0 <= be - 1 && 0 <= i1 <= be - 1 && 0 <= i2 <= be - 1 && 0 <= i3 <= be - 1);
            lemma_val_bound(g1a.limbs@, 16); lemma_val_bound(g1b.limbs@, 16);
            lemma_carry_le(res.0.v(), c1, be, i0, z0.0.v(), cin, 1);
            lemma_carry_le(r1a, c2, be, i1, z0.1.v(), c1, 1);
            lemma_carry_le(r1b, c3, be, r1a, z0.0.v(), 0, 1);
            lemma_small_mod((c2 + c3) as nat, B() as nat);
        }
        let (t6_, t7_) = res.2.adc(&z0.1, carry.wrapping_add(carry2));
        res.2 = t6_; carry = t7_;
        let ghost c4 = carry.0 as int; let ghost r2a = res.2.v(); let ghost g2a = res.2;
        let (t8_, t9_) = res.1.adc(&z2.0, Limb::ZERO);
        res.1 = t8_; carry2 = t9_;
        let ghost c5 = carry2.0 as int;
        let (t10_, t11_) = res.2.adc(&z2.1, carry2);
        res.2 = t10_; carry2 = t11_;
        let ghost c6 = carry2.0 as int; let ghost r2b = res.2.v(); let ghost g2b = res.2;
        proof {
            lemma_val_bound(res.1.limbs@, 16); lemma_val_bound(res.2.limbs@, 16);
            lemma_val_bound(g2a.limbs@, 16); lemma_val_bound(g2b.limbs@, 16); lemma_val_bound(g1b.limbs@, 16);
            lemma_carry_le(r2a, c4, be, i2, z0.1.v(), c2 + c3, 2);
            lemma_carry_le(res.1.v(), c5, be, r1b, z2.0.v(), 0, 1);
            lemma_carry_le(r2b, c6, be, r2a, z2.1.v(), c5, 1);
            lemma_small_mod((c4 + c6) as nat, B() as nat);
        }
        carry = carry.wrapping_add(carry2);
        let (t12_, t13_) = res.2.adc(&z2.0, Limb::ZERO);
        res.2 = t12_; carry2 = t13_;
        let ghost c7 = carry2.0 as int;
        proof {
            lemma_val_bound(res.2.limbs@, 16);
            lemma_val_bound(g2b.limbs@, 16);
            lemma_carry_le(res.2.v(), c7, be, r2b, z2.0.v(), 0, 1);
            lemma_small_mod((c4 + c6 + c7) as nat, B() as nat);
        }
        let (t14_, _t15) = res.3.adc(&z2.1, carry.wrapping_add(carry2));
        res.3 = t14_;
        let ghost c8 = _t15.0 as int;

        proof {
            lemma_val_bound(res.0.limbs@, 16); lemma_val_bound(res.1.limbs@, 16); lemma_val_bound(res.2.limbs@, 16); lemma_val_bound(res.3.limbs@, 16);
            let r0 = res.0.v(); let r1 = res.1.v(); let r2 = res.2.v(); let r3 = res.3.v();
            let z0l = z0.0.v(); let z0h = z0.1.v(); let z2l = z2.0.v(); let z2h = z2.1.v();
            let b1 = be; let b2 = be * be; let b3 = be * b2; let b4 = be * b3;
            lemma_bp_add(16, 16); lemma_bp_add(16, 32); lemma_bp_add(16, 48);
            // scaled equations
            lemma_scale(r1a, c2, i1, z0h, c1, be, b1, b2);
            lemma_scale(r1b, c3, r1a, z0l, 0, be, b1, b2);
            lemma_scale(r1, c5, r1b, z2l, 0, be, b1, b2);
            lemma_scale(r2a, c4, i2, z0h, c2 + c3, be, b2, b3);
            lemma_scale(r2b, c6, r2a, z2h, c5, be, b2, b3);
            lemma_scale(r2, c7, r2b, z2l, 0, be, b2, b3);
            lemma_scale(r3, c8, i3, z2h, c4 + c6 + c7, be, b3, b4);
            assert((c2 + c3) * b2 == c2 * b2 + c3 * b2) by (nonlinear_arith);
            assert((c4 + c6 + c7) * b3 == c4 * b3 + c6 * b3 + c7 * b3) by (nonlinear_arith);
            assert(0 * b1 == 0 && 0 * b2 == 0);
            let rr = r0 + r1 * b1 + r2 * b2 + r3 * b3;
            let init = i0 + i1 * b1 + i2 * b2 + i3 * b3;
            let added = z0l + z0h * b1 + z0l * b1 + z0h * b2 + z2l * b1 + z2h * b2 + z2l * b2 + z2h * b3;
            assert(rr + c8 * b4 == init + cin + added);
            // init + cin
            let z1l = z1.0.v(); let z1h = z1.1.v();
            assert(init + cin == (if z1_neg.t() { b4 - (z1l * b1 + z1h * b2) } else { z1l * b1 + z1h * b2 })) by {
                if z1_neg.t() {
                    assert((be - 1 - z1l) * b1 == be * b1 - b1 - z1l * b1) by (nonlinear_arith);
                    assert((be - 1 - z1h) * b2 == be * b2 - b2 - z1h * b2) by (nonlinear_arith);
                    assert((be - 1) * b3 == be * b3 - b3) by (nonlinear_arith);
                } else {
                    assert(0 * b3 == 0);
                }
            }
            assert(z1l * b1 + z1h * b2 == z1v * be) by (nonlinear_arith) requires z1v == z1l + z1h * be, b1 == be, b2 == be * be;
            // products
            let z0v = z0l + z0h * be; let z2v = z2l + z2h * be;
            assert(z0v == x0v * y0v); assert(z2v == x1v * y1v);
            assert(added == z0v + z0v * be + z2v * be + z2v * b2) by (nonlinear_arith)
                requires added == z0l + z0h * b1 + z0l * b1 + z0h * b2 + z2l * b1 + z2h * b2 + z2l * b2 + z2h * b3,
                    z0v == z0l + z0h * be, z2v == z2l + z2h * be, b1 == be, b2 == be * be, b3 == be * (be * be);
            let xy = (x0v + x1v * be) * (y0v + y1v * be);
            let cross = x0v * y1v + x1v * y0v;
            let pa = x0v; let pb = x1v * be; let pc = y0v; let pd = y1v * be;
            assert((pa + pb) * (pc + pd) == pa * pc + pa * pd + pb * pc + pb * pd) by (nonlinear_arith);
            assert(pa * pd == (x0v * y1v) * be) by (nonlinear_arith) requires pa == x0v, pd == y1v * be;
            assert(pb * pc == (x1v * y0v) * be) by (nonlinear_arith) requires pb == x1v * be, pc == y0v;
            assert(pb * pd == (x1v * y1v) * (be * be)) by (nonlinear_arith) requires pb == x1v * be, pd == y1v * be;
            assert(xy == x0v * y0v + (x0v * y1v) * be + (x1v * y0v) * be + (x1v * y1v) * (be * be));
            assert((x0v * y1v) * be + (x1v * y0v) * be == cross * be) by (nonlinear_arith) requires cross == x0v * y1v + x1v * y0v;
            assert(d0 * d1 == x0v * y1v - x0v * y0v - x1v * y1v + x1v * y0v) by (nonlinear_arith) requires d0 == x0v - x1v, d1 == y1v - y0v;
            assert(cross == d0 * d1 + z0v + z2v);
            assert(xy == z0v + (d0 * d1 + z0v + z2v) * be + z2v * b2);
            assert((d0 * d1 + z0v + z2v) * be == sgn * z1v * be + z0v * be + z2v * be) by (nonlinear_arith) requires d0 * d1 == sgn * z1v;
            assert(sgn * z1v * be == (if z1_neg.t() { -(z1v * be) } else { z1v * be })) by (nonlinear_arith) requires sgn == (if z1_neg.t() { -1int } else { 1int });
            assert(rr + c8 * b4 == xy + (if z1_neg.t() { b4 } else { 0 }));
            // ranges: 0 <= rr < b4, 0 <= xy < b4
            assert(0 <= rr <= b4 - 1) by (nonlinear_arith)
                requires rr == r0 + r1 * b1 + r2 * b2 + r3 * b3, 0 <= r0 <= be - 1, 0 <= r1 <= be - 1, 0 <= r2 <= be - 1, 0 <= r3 <= be - 1,
                    b1 == be, b2 == be * be, b3 == be * (be * be), b4 == be * (be * (be * be)), be >= 4;
            assert(0 <= xy <= b4 - 1) by (nonlinear_arith)
                requires xy == (x0v + x1v * be) * (y0v + y1v * be), 0 <= x0v <= be - 1, 0 <= x1v <= be - 1, 0 <= y0v <= be - 1, 0 <= y1v <= be - 1,
                    b4 == be * (be * (be * be)), be >= 4;
            assert(c8 * b4 == (if c8 == 0 { 0 } else if c8 == 1 { b4 } else { c8 * b4 })) by (nonlinear_arith);
            assert(c8 >= 2 ==> c8 * b4 >= 2 * b4) by (nonlinear_arith) requires b4 > 0;
            assert(c8 >= 0);
            assert(rr == xy);
            // output
            assert(bp(32) == b2);
            assert((r0 + r1 * be) + (r2 + r3 * be) * b2 == rr) by (nonlinear_arith)
                requires rr == r0 + r1 * b1 + r2 * b2 + r3 * b3, b1 == be, b2 == be * be, b3 == be * (be * be);
            assert(val(lhs@, 32) == x0v + x1v * be);
            assert(val(rhs@, 32) == y0v + y1v * be);
        }
        (res.0.concat(&res.1), res.2.concat(&res.3))
    }
}

} // verus!
fn main() {}
